"""C08 — symmetry under class swap, direction reversal and increasing affine maps."""
from fractions import Fraction

from harness import coqio as cq
from harness import thr_common as tc
from harness.common import CONFIGS, F, enc, fl, score_list, nextafter

ID = "C08"
PROPS_FILE = "Props/C08.v"
COQ_IMPORTS = "From SA Require Import Model.Harness Model.Symmetry."
GEN_AVAILABLE = set()
RULE = ("random Scores (ties, easy samples, occasionally an empty class), 4 configurations, thresholds on/off scores "
        "and +-inf, targets for the six metrics, a in {1/4,1/2,2,3,8}, b small dyadic; each case is executed on the "
        "original and on the swapped / negated / affinely mapped object; non-trivial: both classes non-empty and "
        "classes overlap or easy samples present")
TRUSTED = ["negation and affine maps of small dyadic scores are exact in binary64, so transformed inputs are exact",
           "thresholds under negation/affine maps and EER/AUC invariance are checked on the implementation up to a few ulp "
           "(the property's own tolerance); they are not theorems (see Props/C08.v)"]
ASSUMPTIONS = ["finite scores of moderate magnitude", "a > 0"]


def _ties():
    from harness.translate import scores_tr
    return [{"name": "scores.swap", "translate": scores_tr.translate_swap, "gen_file": "Gen_swap.v", "tie_file": "Tie_swap.v"},
            # the functions whose results the property relates (their own properties C01/C02/C06/C07 carry the theorems)
            {"name": "scores.cm", "translate": scores_tr.translate_cm, "gen_file": "Gen_cm.v", "tie_file": "Tie_cm.v"},
            {"name": "scores.threshold-setting", "translate": scores_tr.translate_thresholds, "gen_file": "Gen_thr.v", "tie_file": "Tie_thr.v"},
            {"name": "scores.eer", "translate": scores_tr.translate_eer, "gen_file": "Gen_eer.v", "tie_file": "Tie_eer.v"},
            {"name": "scores.auc", "translate": scores_tr.translate_auc, "gen_file": "Gen_auc.v", "tie_file": "Tie_auc.v"}]


TIES = _ties()


def gen_cases(rng, tier):
    n = {"quick": 300, "thorough": 5000, "search": 3000}[tier]
    cases = []
    for k in range(n):
        style = rng.choice(["ties", "dyadic", "ints", "distinct", "distinct"])
        npos = rng.choice([0, 1, 2, 3, 4, 5, 8]) if k % 11 == 0 else rng.randint(1, 8)
        nneg = rng.randint(1, 8) if npos == 0 or k % 13 else rng.choice([0, 1, 2])
        if style == "distinct":
            vals = rng.sample(range(-40, 40), npos + nneg)
            pos = [Fraction(v, 4) for v in vals[:npos]]
            neg = [Fraction(v, 4) for v in vals[npos:]]
        else:
            pos, neg = score_list(rng, npos, style), score_list(rng, nneg, style)
        if k % 9 == 2:      # quantised scores 0 .. 255: the same data is also run as uint8 arrays (swap relation, equality with float)
            pos = [Fraction(v) for v in rng.sample(range(40, 256), max(npos, 1))]
            neg = [Fraction(v) for v in rng.sample(range(0, 220), max(nneg, 1))]
        sc, ec = rng.choice(CONFIGS)
        allv = pos + neg
        thr = []
        for _ in range(4):
            r = rng.random()
            if r < 0.45:
                thr.append(enc(rng.choice(allv)))
            elif r < 0.55:
                thr.append(rng.choice(["inf", "-inf"]))
            else:
                thr.append(enc(Fraction(rng.randint(-44, 44), 8)))
        cases.append({"pos": [enc(x) for x in pos], "neg": [enc(x) for x in neg],
                      "ep": rng.choice([0, 0, 1, 3]), "en": rng.choice([0, 0, 2, 5]), "sc": sc, "ec": ec, "thr": thr,
                      "metric": rng.choice(tc.METRICS), "targets": [enc(Fraction(rng.randint(1, 31), 32)) for _ in range(3)],
                      "a": enc(rng.choice([Fraction(1, 4), Fraction(1, 2), Fraction(2), Fraction(3), Fraction(8)])),
                      "b": enc(Fraction(rng.randint(-12, 12), 4)), "groups": k % 7 == 0})
    return cases


def _flip(c):
    return "neg" if c == "pos" else "pos"


def run_impl(case):
    import numpy as np
    from score_analysis import Scores

    pos = np.array([fl(x) for x in case["pos"]], dtype=float)
    neg = np.array([fl(x) for x in case["neg"]], dtype=float)
    thr = np.array([fl(t) for t in case["thr"]], dtype=float)
    a, b = fl(case["a"]), fl(case["b"])
    kw = dict(nb_easy_pos=case["ep"], nb_easy_neg=case["en"])
    s = Scores(pos, neg, score_class=case["sc"], equal_class=case["ec"], **kw)
    sw = s.swap()
    ng = Scores(-pos, -neg, score_class=_flip(case["sc"]), equal_class=case["ec"], **kw)
    af = Scores(a * pos + b, a * neg + b, score_class=case["sc"], equal_class=case["ec"], **kw)
    rates = ("tpr", "fnr", "tnr", "fpr", "topr", "tonr")

    def mats(o, t):
        return [[int(v) for v in m.reshape(-1)] for m in o.cm(t).matrix]

    def rts(o, t):
        return {n: [enc(float(v)) for v in np.atleast_1d(getattr(o, n)(t))] for n in rates}

    out = {"cm": mats(s, thr), "cm_swap": mats(sw, thr), "cm_neg": mats(ng, -thr), "cm_aff": mats(af, a * thr + b),
           "rates": rts(s, thr), "rates_swap": rts(sw, thr), "rates_aff": rts(af, a * thr + b),
           "swap_flags": [sw.score_class.value, sw.equal_class.value, int(sw.nb_easy_pos), int(sw.nb_easy_neg)],
           "swap_pos": [enc(float(x)) for x in sw.pos], "swap_neg": [enc(float(x)) for x in sw.neg]}
    allf = np.concatenate([pos, neg])
    if len(allf) and np.all(allf == np.floor(allf)) and allf.min() >= 0 and allf.max() <= 255:
        su = Scores(pos.astype(np.uint8)[::-1].copy(), neg.astype(np.uint8)[::-1].copy(), score_class=case["sc"], equal_class=case["ec"], **kw)
        out["cm_u8"] = mats(su, thr)
        out["cm_swap_u8"] = mats(su.swap(), thr)
        if len(pos) and len(neg):
            out["auc_u8"] = [enc(float(su.auc())), enc(float(su.auc(lower=0.25, upper=0.75))), enc(float(su.swap().auc()))]
            out["auc_f8"] = [enc(float(s.auc())), enc(float(s.auc(lower=0.25, upper=0.75))), enc(float(sw.auc()))]
    targets = np.array([fl(t) for t in case["targets"]], dtype=float)
    rel, _ = tc.relevant(case)
    if rel:
        f = "threshold_at_" + case["metric"]
        out["thr"] = [enc(float(x)) for x in getattr(s, f)(targets)]
        out["thr_neg"] = [enc(float(x)) for x in getattr(ng, f)(targets)]
        out["thr_aff"] = [enc(float(x)) for x in getattr(af, f)(targets)]
    out["mixed_dtype"] = tc.mixed_dtype_probe(pos, neg, kw.get("nb_easy_pos", 0), kw.get("nb_easy_neg", 0), case["sc"], case["ec"], targets)
    if len(pos) and len(neg):
        for name, o in (("", s), ("_neg", ng), ("_aff", af), ("_swap", sw)):
            t, e = o.eer()
            out["eer" + name] = [enc(float(t)), enc(float(e))]
        out["auc"] = enc(float(s.auc()))
        out["auc_aff"] = enc(float(af.auc()))
        out["auc_neg"] = enc(float(ng.auc()))
        # the swapped object's (FNR, TNR) curve is the original (FPR, TPR) curve
        out["auc_swap_axes"] = [enc(float(sw.auc(x_axis="fnr", y_axis="tnr"))), enc(float(sw.auc(lower=0.25, upper=0.75, x_axis="fnr", y_axis="tnr")))]
        out["pauc"] = enc(float(s.auc(lower=0.25, upper=0.75)))
        out["pauc_aff"] = enc(float(af.auc(lower=0.25, upper=0.75)))
    if case.get("groups") and len(pos) and len(neg):
        from score_analysis import GroupScores
        pg = np.array([i % 2 for i in range(len(pos))])
        ngp = np.array([(i + 1) % 2 for i in range(len(neg))])
        g = GroupScores(pos, neg, pos_groups=pg, neg_groups=ngp, score_class=case["sc"], equal_class=case["ec"])
        if len(case["pos"]) % 2:      # history: one group view (not the first group) was taken before anything else
            _ = g[1].pos
        gs = g.swap()
        out["gcm"] = [[int(v) for v in m.reshape(-1)] for m in g.cm(thr).matrix]
        out["gcm_swap"] = [[int(v) for v in m.reshape(-1)] for m in gs.cm(thr).matrix]
        # group-wise views (touch the per-group cache before swapping as well)
        out["ggcm"] = [[int(v) for v in m.reshape(-1)] for m in g.group_cm(thr).matrix.reshape(-1, 2, 2)]
        out["ggcm_swap"] = [[int(v) for v in m.reshape(-1)] for m in g.swap().group_cm(thr).matrix.reshape(-1, 2, 2)]
        out["gfpr"] = [enc(float(v)) for v in np.asarray(g.group_fpr(thr)).reshape(-1)]
        out["gfnr_swap"] = [enc(float(v)) for v in np.asarray(g.swap().group_fnr(thr)).reshape(-1)]
        # named groups listed by the caller in a non-alphabetical order (and a subset of them): matched BY NAME, the group's
        # matrix is that of the filtered data, and the swapped object's is its transpose
        lab = np.array(["young", "adult", "senior"])
        pgn, ngn = lab[np.arange(len(pos)) % 3], lab[(np.arange(len(neg)) + 1) % 3]
        named = []
        present = set(pgn) | set(ngn)
        for names in (["young", "adult", "senior"], ["senior", "young"]):
            names = [n_ for n_ in names if n_ in present]
            if len(names) < 2:
                continue
            gn = GroupScores(pos, neg, pos_groups=pgn, neg_groups=ngn, score_class=case["sc"], equal_class=case["ec"], group_names=names)
            gns = gn.swap()
            for nm in names:
                ref = Scores(pos[pgn == nm], neg[ngn == nm], score_class=case["sc"], equal_class=case["ec"])
                named.append([",".join(names) + ":" + nm, mats(gn[nm], thr), mats(gns[nm], thr), mats(ref, thr)])
        out["named"] = named
    return out


def _cmz(m):
    return f"(mkCmz {cq.z(m[0])} {cq.z(m[1])} {cq.z(m[2])} {cq.z(m[3])})"


def coq_term(case, res):
    if "ok" not in res:
        return "false"
    r = res["ok"]
    s = tc.scores_term(case)
    thr = [t if t in ("inf", "-inf") else F(t) for t in case["thr"]]
    a, b = F(case["a"]), F(case["b"])

    def lst(ts):
        return "[" + "; ".join(cq.ext(t) for t in ts) + "]"

    def neg(t):
        return {"inf": "-inf", "-inf": "inf"}.get(t, None) or -t

    def aff(t):
        return t if t in ("inf", "-inf") else a * t + b

    def exp(ms):
        return "[" + "; ".join(_cmz(m) for m in ms) + "]"

    gen = f" && list_eqb cmz_eqb (map (cm (Gen.Gen_swap.gen_swap s)) {lst(thr)}) {exp(r['cm_swap'])}" if "Gen_swap" in GEN_AVAILABLE else ""
    return (f"(let s := {s} in list_eqb cmz_eqb (map (cm (swap s)) {lst(thr)}) {exp(r['cm_swap'])}{gen} && "
            f"list_eqb cmz_eqb (map (cm (neg_scores s)) {lst([neg(t) for t in thr])}) {exp(r['cm_neg'])} && "
            f"list_eqb cmz_eqb (map (cm (affine_scores {cq.q(a)} {cq.q(b)} s)) {lst([aff(t) for t in thr])}) {exp(r['cm_aff'])})")


def oracle(case, res):
    if "ok" not in res:
        return [("C08/exception", f"raised {res.get('err')}: {res.get('msg')}")]
    r = res["ok"]
    fails = []
    cfg = case["sc"] + "-" + case["ec"]
    if r.get("mixed_dtype"):
        fails.append((f"C08/thresholds/int-typed-class/{cfg}", r["mixed_dtype"]))
    for j, m in enumerate(r["cm"]):
        if r["cm_swap"][j] != [m[3], m[2], m[1], m[0]]:
            fails.append((f"C08/swap-cm/{cfg}", f"threshold {case['thr'][j]}: cm {m}, swapped object's cm {r['cm_swap'][j]}"))
        if r["cm_neg"][j] != m:
            fails.append((f"C08/negate-cm/{cfg}", f"threshold {case['thr'][j]}: cm {m}, negated object at -t {r['cm_neg'][j]}"))
        if r["cm_aff"][j] != m:
            fails.append((f"C08/affine-cm/{cfg}", f"threshold {case['thr'][j]}: cm {m}, mapped object at a*t+b {r['cm_aff'][j]}"))
    pairs = [("fpr", "fnr"), ("fnr", "fpr"), ("tpr", "tnr"), ("tnr", "tpr"), ("topr", "tonr"), ("tonr", "topr")]
    for a_, b_ in pairs:
        if r["rates"][a_] != r["rates_swap"][b_]:
            fails.append((f"C08/swap-rates/{a_}", f"{a_} of original {r['rates'][a_]} != {b_} of swapped {r['rates_swap'][b_]}"))
    for name in r["rates"]:
        if r["rates"][name] != r["rates_aff"][name]:
            fails.append((f"C08/affine-rates/{name}", f"{name} changed under the affine map"))
    if r["swap_flags"] != [_flip(case["sc"]), _flip(case["ec"]), case["en"], case["ep"]]:
        fails.append(("C08/swap-flags", f"swapped object has flags/easy counts {r['swap_flags']}"))
    if sorted(F(x) for x in r["swap_pos"]) != sorted(F(x) for x in case["neg"]) or sorted(F(x) for x in r["swap_neg"]) != sorted(F(x) for x in case["pos"]):
        fails.append(("C08/swap-scores", "swapped object does not hold the other class's scores"))
    if "auc_swap_axes" in r:
        for got, want, what in ((r["auc_swap_axes"][0], r["auc"], "full"), (r["auc_swap_axes"][1], r["pauc"], "over [0.25, 0.75]")):
            if abs(F(got) - F(want)) > Fraction(1, 10 ** 12):
                fails.append((f"C08/swap-auc/{cfg}", f"AUC {what}: original (FPR, TPR) gives {float(F(want))}, the swapped object's (FNR, TNR) curve gives {float(F(got))}"))
    if "auc_u8" in r and r["auc_u8"] != r["auc_f8"]:
        fails.append((f"C08/uint8-auc/{cfg}", f"auc(), auc(0.25, 0.75), swap().auc() of the scores held as a uint8 array = {[float(F(v)) for v in r['auc_u8']]}, "
                      f"of the same scores as float64 = {[float(F(v)) for v in r['auc_f8']]} (the identity map must not change the AUC)"))
    if "cm_u8" in r:
        for j, m in enumerate(r["cm"]):
            if r["cm_u8"][j] != m:
                fails.append((f"C08/uint8-cm/{cfg}", f"threshold {case['thr'][j]}: the same scores as a uint8 array give cm {r['cm_u8'][j]}, as float64 {m}"))
                break
            if r["cm_swap_u8"][j] != [m[3], m[2], m[1], m[0]]:
                fails.append((f"C08/swap-cm/uint8/{cfg}", f"threshold {case['thr'][j]}: cm {m}, swapped uint8 object {r['cm_swap_u8'][j]}"))
                break
    if "gcm" in r:
        for j, m in enumerate(r["gcm"]):
            if r["gcm_swap"][j] != [m[3], m[2], m[1], m[0]]:
                fails.append((f"C08/group-swap-cm/{cfg}", f"GroupScores.swap: cm {m} vs {r['gcm_swap'][j]}"))
        for j, m in enumerate(r["ggcm"]):
            if r["ggcm_swap"][j] != [m[3], m[2], m[1], m[0]]:
                fails.append((f"C08/group-swap-group-cm/{cfg}", f"per-group cm #{j}: {m} vs swapped object's {r['ggcm_swap'][j]}"))
        for tag, a_, b_, c_ in r.get("named") or []:
            if a_ != c_:
                fails.append((f"C08/group-by-name/{cfg}", f"group_names {tag}: cm of the group view {a_} differs from the cm of the filtered data {c_}"))
                break
            if b_ != [[m[3], m[2], m[1], m[0]] for m in a_]:
                fails.append((f"C08/group-swap-by-name/{cfg}", f"group_names {tag}: cm {a_}, the swapped object's view of the same group has {b_}"))
                break
        if r["gfpr"] != r["gfnr_swap"]:
            fails.append((f"C08/group-swap-rates/{cfg}", f"group_fpr {r['gfpr']} != group_fnr of the swapped object {r['gfnr_swap']}"))
    a, b = F(case["a"]), F(case["b"])
    allv = [abs(F(x)) for x in case["pos"] + case["neg"]] + [Fraction(1)]
    tau = tc.tau(dict(case, metric="topr"))
    if "thr" in r:
        for j in range(len(r["thr"])):
            t, tn, ta = F(r["thr"][j]), F(r["thr_neg"][j]), F(r["thr_aff"][j])
            if abs(tn + t) > 2 * tau:
                fails.append((f"C08/negate-threshold/{case['metric']}/{cfg}", f"target {case['targets'][j]}: threshold {t}, negated object gives {tn}"))
            if abs(ta - (a * t + b)) > 2 * tau * max(a, 1) + abs(b) * Fraction(1, 2 ** 48):
                fails.append((f"C08/affine-threshold/{case['metric']}/{cfg}", f"target {case['targets'][j]}: threshold {t}, mapped object gives {ta}, expected {a * t + b}"))
    if "eer" in r:
        vals = sorted(F(x) for x in case["pos"] + case["neg"])
        spread = (vals[-1] - vals[0]) + 1
        tie_free = len(set(vals)) == len(vals)
        (t, e), (tn, en), (ta, ea) = ([F(v) for v in r[k]] for k in ("eer", "eer_neg", "eer_aff"))
        tol_e = Fraction(1, 10 ** 9)
        n = len(vals)
        tol_t = 4 * tau + tol_e * n * spread
        if abs(e - ea) > tol_e:
            fails.append((f"C08/affine-eer/{cfg}", f"EER {e} became {ea} under the affine map"))
        if tie_free:
            if abs(e - en) > tol_e:
                fails.append((f"C08/negate-eer/{cfg}", f"EER {e} became {en} under negation"))
            if abs(tn + t) > tol_t:
                fails.append((f"C08/negate-eer-threshold/{cfg}", f"EER threshold {t}, negated object gives {tn}"))
            if abs(ta - (a * t + b)) > tol_t * max(a, 1):
                fails.append((f"C08/affine-eer-threshold/{cfg}", f"EER threshold {t} mapped to {ta}, expected {a * t + b}"))
        tol_a = Fraction(1, 10 ** 12)
        if abs(F(r["auc"]) - F(r["auc_aff"])) > tol_a or abs(F(r["pauc"]) - F(r["pauc_aff"])) > tol_a:
            fails.append((f"C08/affine-auc/{cfg}", f"AUC {r['auc']}/{r['pauc']} became {r['auc_aff']}/{r['pauc_aff']}"))
    return fails


def nontrivial(case, res):
    if not case["pos"] or not case["neg"]:
        return False
    pos, neg = [F(x) for x in case["pos"]], [F(x) for x in case["neg"]]
    overlap = min(pos) <= max(neg) and min(neg) <= max(pos)
    return overlap or case["ep"] > 0 or case["en"] > 0


def distribution(cases, results):
    d = {"n": len(cases), "empty_class": 0, "cfg": {}, "with_easy": 0, "tied": 0, "errors": 0}
    for c, r in zip(cases, results):
        d["empty_class"] += (not c["pos"]) or (not c["neg"])
        k = c["sc"] + "/" + c["ec"]
        d["cfg"][k] = d["cfg"].get(k, 0) + 1
        d["with_easy"] += bool(c["ep"] or c["en"])
        v = c["pos"] + c["neg"]
        d["tied"] += len(set(v)) < len(v)
        d["errors"] += "ok" not in r
    return d
