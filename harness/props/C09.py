"""C09 — virtual easy samples behave exactly like materialised extreme scores."""
from fractions import Fraction

from harness import coqio as cq
from harness import thr_common as tc
from harness.common import CONFIGS, F, enc, fl, score_list

ID = "C09"
PROPS_FILE = "Props/C09.v"
COQ_IMPORTS = "From SA Require Import Model.Harness Model.Symmetry."
GEN_AVAILABLE = set()
RULE = ("random Scores with k, m >= 0 easy samples, both classes non-empty, 4 configurations; the easy samples are "
        "materialised as scores beyond all others on their own class's side; thresholds inside the materialised range "
        "(on scores, between, just inside the extremes), targets for the six metrics whose materialised threshold lies "
        "within [min,max] of the relevant scored samples, full and partial AUC; non-trivial: k + m > 0")
TRUSTED = ["equality of thresholds and AUC between the two objects is checked on the implementation (exact on stream E, "
           "few ulp / 1e-12 otherwise); the Coq theorem covers the confusion matrices (Props/C09.v)"]
ASSUMPTIONS = ["both classes non-empty", "finite scores of moderate magnitude"]
def _ties():
    from harness.translate import scores_tr
    # C09 has no code of its own: it relates cm, threshold setting and auc on two objects
    return [{"name": "scores.cm", "translate": scores_tr.translate_cm, "gen_file": "Gen_cm.v", "tie_file": "Tie_cm.v"},
            {"name": "scores.threshold-setting", "translate": scores_tr.translate_thresholds, "gen_file": "Gen_thr.v", "tie_file": "Tie_thr.v"},
            {"name": "scores.auc", "translate": scores_tr.translate_auc, "gen_file": "Gen_auc.v", "tie_file": "Tie_auc.v"}]


TIES = _ties()


def gen_cases(rng, tier):
    n = {"quick": 300, "thorough": 5000, "search": 3000}[tier]
    cases = []
    for k in range(n):
        exact = rng.random() < 0.6
        metric = rng.choice(tc.METRICS)
        pos, neg, ep, en = tc.gen_scores(rng, exact, metric, style=rng.choice(["ties", "dyadic", "ints", "distinct"]))
        if k % 9 == 0:
            ep = en = 0
        sc, ec = rng.choice(CONFIGS)
        allv = pos + neg
        lo, hi = min(allv), max(allv)
        far_hi, far_lo = hi + rng.choice([1, 2, Fraction(1, 4)]), lo - rng.choice([1, 3, Fraction(1, 4)])
        # positives are accepted when their score is on the positive side: far end for score_class
        ppos, pneg = (far_hi, far_lo) if sc == "pos" else (far_lo, far_hi)
        thr = []
        for _ in range(4):
            r = rng.random()
            if r < 0.4:
                thr.append(rng.choice(allv))
            elif r < 0.8:
                thr.append(Fraction(rng.randint(int(lo * 8), int(hi * 8)), 8))
            else:
                thr.append(rng.choice([lo, hi, (lo + far_lo) / 2, (hi + far_hi) / 2]))
        cases.append({"pos": [enc(x) for x in pos], "neg": [enc(x) for x in neg], "ep": ep, "en": en, "sc": sc, "ec": ec,
                      "ppos": enc(ppos), "pneg": enc(pneg), "thr": [enc(t) for t in thr], "metric": metric,
                      "targets": [enc(Fraction(rng.randint(0, 32), 32)) for _ in range(4)], "exact": exact,
                      "window": [enc(Fraction(rng.randint(0, 8), 16)), enc(Fraction(rng.randint(8, 16), 16))]})
    # a few hundred thousand easy samples next to ~100 scored ones: the easy ratio is within 1e-5 of 1 and the targets lie
    # in the sliver above it, half a sample off the grid (the materialised object really holds the 4e5 extreme scores)
    for k in range({"quick": 6, "thorough": 30, "search": 12}[tier]):
        metric = ["tpr", "tnr", "topr", "tonr", "fnr", "fpr"][k % 6]
        npos, nneg = rng.randint(60, 110), rng.randint(60, 110)
        vals = rng.sample(range(-2000, 2000), npos + nneg)
        pos, neg = [Fraction(v, 8) for v in vals[:npos]], [Fraction(v, 8) for v in vals[npos:]]
        ep, en = rng.choice([400000, 250000, 0]), rng.choice([300000, 200000, 0])
        if metric in ("tpr", "fnr", "topr") and ep == 0:
            ep = 400000
        if metric in ("tnr", "fpr", "tonr") and en == 0:
            en = 300000
        sc, ec = rng.choice(CONFIGS)
        allv = pos + neg
        lo, hi = min(allv), max(allv)
        ppos, pneg = (hi + 1, lo - 1) if sc == "pos" else (lo - 1, hi + 1)
        n_rel, e_rel = {"tpr": (npos, ep), "fnr": (npos, ep), "tnr": (nneg, en), "fpr": (nneg, en),
                        "topr": (npos + nneg, ep), "tonr": (npos + nneg, en)}[metric]
        tot = {"tpr": npos + ep, "fnr": npos + ep, "tnr": nneg + en, "fpr": nneg + en}.get(metric, npos + nneg + ep + en)
        tg = []
        for i_ in range(4):
            j = rng.randint(1, n_rel - 2) if i_ >= 2 else rng.randint(1, 3)     # two targets within 1e-5 of the easy ratio
            x = Fraction(2 * j + 1, 2 * tot)                     # half a sample off the grid, among the scored samples
            tg.append(x if metric in ("fnr", "fpr") else (Fraction(e_rel, tot) + x if metric in ("tpr", "tnr", "topr", "tonr") else x))
        cases.append({"pos": [enc(x) for x in pos], "neg": [enc(x) for x in neg], "ep": ep, "en": en, "sc": sc, "ec": ec,
                      "ppos": enc(ppos), "pneg": enc(pneg), "thr": [enc(rng.choice(allv)), enc(Fraction(rng.randint(int(lo), int(hi))))],
                      "metric": metric, "targets": [enc(Fraction(float(t))) for t in tg], "exact": False, "huge": True,
                      "window": [enc(Fraction(rng.randint(0, 8), 16)), enc(Fraction(rng.randint(8, 16), 16))]})
    return cases


def run_impl(case):
    import numpy as np
    from score_analysis import Scores

    pos = np.array([fl(x) for x in case["pos"]], dtype=float)
    neg = np.array([fl(x) for x in case["neg"]], dtype=float)
    thr = np.array([fl(t) for t in case["thr"]], dtype=float)
    s = Scores(pos, neg, nb_easy_pos=case["ep"], nb_easy_neg=case["en"], score_class=case["sc"], equal_class=case["ec"])
    mp = np.concatenate([pos, np.full(case["ep"], fl(case["ppos"]))])
    mn = np.concatenate([neg, np.full(case["en"], fl(case["pneg"]))])
    m = Scores(mp, mn, score_class=case["sc"], equal_class=case["ec"])
    out = {"cm": [[int(v) for v in x.reshape(-1)] for x in s.cm(thr).matrix],
           "cm_mat": [[int(v) for v in x.reshape(-1)] for x in m.cm(thr).matrix]}
    targets = np.array([fl(t) for t in case["targets"]], dtype=float)
    f = "threshold_at_" + case["metric"]
    out["thr"] = [enc(float(x)) for x in getattr(s, f)(targets)]
    out["thr_mat"] = [enc(float(x)) for x in getattr(m, f)(targets)]
    lo, hi = fl(case["window"][0]), fl(case["window"][1])
    out["auc"] = [enc(float(s.auc())), enc(float(s.auc(lower=lo, upper=hi)))]
    out["auc_mat"] = [enc(float(m.auc())), enc(float(m.auc(lower=lo, upper=hi)))]
    out["mixed_dtype"] = tc.mixed_dtype_probe(pos, neg, case["ep"], case["en"], case["sc"], case["ec"], targets) if not case.get("huge") else None
    for xa, ya in (("fnr", "tnr"), ("tnr", "fnr")):
        out["auc"].append(enc(float(s.auc(lower=lo, upper=hi, x_axis=xa, y_axis=ya))))
        out["auc_mat"].append(enc(float(m.auc(lower=lo, upper=hi, x_axis=xa, y_axis=ya))))
    return out


def _cmz(m):
    return f"(mkCmz {cq.z(m[0])} {cq.z(m[1])} {cq.z(m[2])} {cq.z(m[3])})"


def coq_term(case, res):
    if "ok" not in res:
        return "false"
    r = res["ok"]
    if case.get("huge"):
        return None       # 4e5-element score lists are not evaluated in Coq; the paired oracle decides these cases
    s = tc.scores_term(case)
    thr = "[" + "; ".join(cq.ext(F(t)) for t in case["thr"]) + "]"
    exp = "[" + "; ".join(_cmz(m) for m in r["cm_mat"]) + "]"
    return (f"(let s := {s} in list_eqb cmz_eqb (map (cm (materialise s {cq.q(F(case['ppos']))} {cq.q(F(case['pneg']))})) {thr}) {exp})")


def _rel_range(case):
    rel, _ = tc.relevant(case)
    return min(rel), max(rel)


def oracle(case, res):
    if "ok" not in res:
        return [("C09/exception", f"raised {res.get('err')}: {res.get('msg')}")]
    r = res["ok"]
    fails = []
    cfg = case["sc"] + "-" + case["ec"]
    if r.get("mixed_dtype"):
        fails.append((f"C09/thresholds/int-typed-class/{cfg}", r["mixed_dtype"]))
    for j, t in enumerate(case["thr"]):
        if r["cm"][j] != r["cm_mat"][j]:
            fails.append((f"C09/cm/{cfg}", f"threshold {t}: virtual {r['cm'][j]} vs materialised {r['cm_mat'][j]}"))
    tau = tc.tau(case)
    lo, hi = _rel_range(case)
    for j, t in enumerate(case["targets"]):
        tv, tm = F(r["thr"][j]), F(r["thr_mat"][j])
        if lo <= tm <= hi:   # materialised threshold falls within the range of the scored samples
            tol = 2 * tau   # a sentinel is one ulp outside the last sample (the 'few ulp' of C02)
            if case.get("huge"):
                # r - easy_ratio cancels: the rescaled target carries an error of about 2^-53 * N_all / N_scored, i.e.
                # 2^-53 * N_all sample positions; one position is at most the largest gap between scored samples
                rel_, _ = tc.relevant(case)
                sv = sorted(rel_)
                gap = max((b_ - a_ for a_, b_ in zip(sv, sv[1:])), default=Fraction(0))
                n_all = len(case["pos"]) + len(case["neg"]) + case["ep"] + case["en"]
                tol += gap * n_all * Fraction(1, 2 ** 48)
            if abs(tv - tm) > tol:
                fails.append((f"C09/threshold/{case['metric']}/{cfg}", f"target {t}: virtual {tv} vs materialised {tm}"))
    tol = Fraction(1, 10 ** 9) if case.get("huge") else Fraction(1, 10 ** 12)
    for j, (a, b) in enumerate(zip(r["auc"], r["auc_mat"])):
        if abs(F(a) - F(b)) > tol:
            fails.append((f"C09/auc/{j}/{cfg}", f"AUC #{j} (0 full, 1 partial fpr/tpr, 2-3 other axes) window {case['window']}: virtual {a} vs materialised {b}"))
    return fails


def nontrivial(case, res):
    return case["ep"] + case["en"] > 0


def distribution(cases, results):
    d = {"n": len(cases), "with_easy": 0, "exact_stream": 0, "cfg": {}, "metric": {}, "errors": 0, "targets_in_range": 0}
    for c, r in zip(cases, results):
        d["with_easy"] += bool(c["ep"] or c["en"])
        d["exact_stream"] += bool(c["exact"])
        k = c["sc"] + "/" + c["ec"]
        d["cfg"][k] = d["cfg"].get(k, 0) + 1
        d["metric"][c["metric"]] = d["metric"].get(c["metric"], 0) + 1
        d["errors"] += "ok" not in r
        if "ok" in r:
            lo, hi = _rel_range(c)
            d["targets_in_range"] += sum(lo <= F(t) <= hi for t in r["ok"]["thr_mat"])
    return d
