"""C15 — ROC curves are genuine operating points, ordered along the chosen x-axis (roc(), _find_support_thresholds,
ROCCurve views)."""
import math
from fractions import Fraction

from harness import coqio as cq
from harness import thr_common as tc
from harness.common import CONFIGS, F, enc, fl, pick_dtype, score_list

ID = "C15"
PROPS_FILE = "Props/C15.v"
COQ_IMPORTS = "From SA Require Import Model.HarnessRoc."
GEN_AVAILABLE = set()
CHUNK = 40
AXES = ["fnr", "fpr", "tnr", "tpr", "far", "frr", "tar", "trr"]
COQ_AXIS = {"fnr": "XFnr", "fpr": "XFpr", "tnr": "XTnr", "tpr": "XTpr", "far": "XFar", "frr": "XFrr", "tar": "XTar", "trr": "XTrr"}
RULE = ("Scores with both classes non-empty (ties within and across classes, easy samples, 4 configurations) x every "
        "combination of supplied fnr / fpr / thresholds arrays (None, given, empty) x nb_points in {None, 0, 1, 2, 3, 7, 10, 100} "
        "x the 8 x_axis names + an invalid one; stream E (class sizes and size+easy powers of two, small dyadic scores and "
        "targets) compared with the model: thresholds bit-for-bit (64 ulp when nb_points makes the linspace targets "
        "non-dyadic), rates within 2^-50; stream F (arbitrary sizes / doubles): oracle only. A case is non-trivial when "
        "the returned curve has >= 3 distinct operating points")
TRUSTED = ["np.linspace exact in Q (stream E: dyadic steps), np.sort = sorted permutation (isort), x[::-1] = rev, "
           "np.concatenate = ++, np.nextafter = succ64/pred64",
           "threshold_at_fnr/fpr on arrays = elementwise map of the scalar model of C02 (Model/Threshold.v)",
           "translator whitelist of harness/translate/roc_tr.py (top-level shape of _find_support_thresholds, set literals, "
           "argument binding of the _find_support_thresholds call, ROCCurve dataclass fields)"]
ASSUMPTIONS = ["both classes non-empty; finite scores of moderate magnitude; supplied fnr/fpr values in [0,1]; easy counts >= 0",
               "supplied-but-empty arrays count as 'no points supplied'"]


def _ties():
    from harness.translate import roc_tr
    return [{"name": "roc_curve.roc/_find_support_thresholds-tail/ROCCurve-views", "translate": roc_tr.translate_roc,
             "gen_file": "Gen_roc.v", "tie_file": "Tie_roc.v"}]


TIES = _ties()


# ------------------------------------------------------------------ generators
def gen_scores(rng, exact):
    if exact:
        npos, nneg = rng.choice([1, 2, 4, 4, 8]), rng.choice([1, 2, 4, 4, 8])
        ep, en = rng.choice([0, 0, npos, 3 * npos]), rng.choice([0, 0, nneg, 3 * nneg])
        style = rng.choice(["ties", "dyadic", "ints", "distinct", "uint"])
    else:
        npos, nneg = rng.choice([1, 2, 3, 5, 6, 7, 9]), rng.choice([1, 2, 3, 4, 5, 7, 10])
        ep, en = rng.choice([0, 0, 1, 2, 5, 30]), rng.choice([0, 0, 1, 3, 7])
        style = rng.choice(["ties", "dyadic", "ints", "distinct", "float", "uint"])
    return score_list(rng, npos, style), score_list(rng, nneg, style), ep, en


def gen_rates(rng, exact):
    k = rng.choice([0, 1, 1, 2, 3, 4])
    out = []
    for _ in range(k):
        r = rng.random()
        if r < 0.25:
            out.append(Fraction(rng.choice([0, 1])))
        elif r < 0.85 or exact:
            out.append(Fraction(rng.randint(0, 16), 16))
        else:
            out.append(Fraction(rng.random()))
    return out


def gen_thresholds(rng, pool, exact):
    k = rng.choice([0, 1, 2, 3, 4])
    out = []
    for _ in range(k):
        r = rng.random()
        if r < 0.5:
            out.append(rng.choice(pool))
        elif r < 0.8:
            out.append(rng.choice(pool) + Fraction(rng.choice([-1, 1]), 8))
        else:
            out.append(Fraction(rng.randint(-40, 40), 4))
    return out


def gen_case(rng, k, exact=None, supplied=None, nb_points="?", x_axis=None):
    exact = rng.random() < 0.75 if exact is None else exact
    pos, neg, ep, en = gen_scores(rng, exact)
    sc, ec = CONFIGS[k % 4] if rng.random() < 0.5 else rng.choice(CONFIGS)
    supplied = supplied if supplied is not None else rng.choice(range(8))
    case = {"pos": [enc(x) for x in pos], "neg": [enc(x) for x in neg], "ep": ep, "en": en, "sc": sc, "ec": ec, "exact": exact}
    case["fnr"] = [enc(x) for x in gen_rates(rng, exact)] if supplied & 1 else None
    case["fpr"] = [enc(x) for x in gen_rates(rng, exact)] if supplied & 2 else None
    case["thresholds"] = [enc(x) for x in gen_thresholds(rng, pos + neg, exact)] if supplied & 4 else None
    # array dtypes: scores in any dtype that holds them exactly (float32, int8, int64, uint8, uint16), user thresholds likewise
    case["dtype"] = pick_dtype(rng, pos + neg)
    if case["dtype"].startswith("uint") and case["thresholds"]:
        if rng.random() < 0.7:   # thresholds of the same unsigned kind: taken from the scores
            case["thresholds"] = [enc(rng.choice(pos + neg)) for _ in case["thresholds"]]
    case["thr_dtype"] = pick_dtype(rng, [F(x) for x in case["thresholds"]]) if case["thresholds"] else "float64"
    if (case["fnr"] or case["fpr"]) and rng.random() < 0.2:
        # the supplied rates arrive as a float32 / float16 array (non-dyadic rates such as 0.1, 0.05, 1/3 rounded to that type):
        # the curve must contain what the object's own threshold setting assigns to exactly that array (oracle only)
        case["rate_dtype"] = rng.choice(["float32", "float32", "float16"])
        for nm in ("fnr", "fpr"):
            if case[nm]:
                case[nm] = [enc(Fraction(rng.choice([0.1, 0.05, 0.2, 1 / 3, 0.15, 0.3, 0.7, 0.9, 0.01]))) for _ in case[nm]]
    if case["thresholds"] and rng.random() < 0.15:
        # +-inf are legal thresholds (the corner points of the curve); oracle only, the model's thresholds are finite
        case["thresholds"] = case["thresholds"] + rng.choice([["inf"], ["-inf"], ["-inf", "inf"]])
        rng.shuffle(case["thresholds"])
        case["thr_dtype"] = "float64"
    case["nb_points"] = rng.choice([None, 2, 3, 10, 10, 100, 0, 1, 7]) if nb_points == "?" else nb_points
    case["x_axis"] = x_axis or (AXES[k % 8] if rng.random() < 0.93 else "ppv")
    return case


def gen_cases(rng, tier):
    n = {"quick": 420, "thorough": 6000, "search": 3000}[tier]
    cases = []
    k = 0
    # aimed: nothing supplied x every nb_points x every axis, both directions
    for nb in (None, 2, 3, 10, 100):
        for ax in AXES:
            cases.append(gen_case(rng, k, exact=(nb != 100 or k % 2 == 0), supplied=0, nb_points=nb, x_axis=ax))
            k += 1
    for sup in range(1, 8):
        for ax in ("fnr", "tpr"):
            cases.append(gen_case(rng, k, supplied=sup, x_axis=ax))
            k += 1
    cases.append(gen_case(rng, k, supplied=0, x_axis="ppv"))
    while len(cases) < n:
        k += 1
        cases.append(gen_case(rng, k))
    return cases


# ------------------------------------------------------------------ implementation
def _arr(v, np):
    return None if v is None else np.array([fl(x) for x in v], dtype=float)


def _encl(a):
    return [enc(float(x)) for x in a]


def run_impl(case):
    import numpy as np
    from score_analysis import roc

    s = tc.make_scores(case)
    fnr, fpr, thr = _arr(case["fnr"], np), _arr(case["fpr"], np), _arr(case["thresholds"], np)
    if thr is not None:
        thr = thr.astype(np.dtype(case.get("thr_dtype", "float64")))
    if case.get("rate_dtype"):
        fnr = None if fnr is None else fnr.astype(np.dtype(case["rate_dtype"]))
        fpr = None if fpr is None else fpr.astype(np.dtype(case["rate_dtype"]))
    c = roc(s, fnr=fnr, fpr=fpr, thresholds=thr, nb_points=case["nb_points"], x_axis=case["x_axis"])
    t = np.asarray(c.thresholds, dtype=float)
    out = {"thresholds": _encl(t), "fnr": _encl(c.fnr), "fpr": _encl(c.fpr),
           "shapes": [list(np.shape(c.thresholds)), list(np.shape(c.fnr)), list(np.shape(c.fpr))],
           # the object's own rates at the returned thresholds
           "fnr_at": _encl(np.atleast_1d(s.fnr(t))), "fpr_at": _encl(np.atleast_1d(s.fpr(t))),
           # the thresholds that threshold setting assigns to the supplied rates (object's own methods)
           "thr_of_fnr": None if fnr is None else _encl(np.atleast_1d(s.threshold_at_fnr(fnr))),
           "thr_of_fpr": None if fpr is None else _encl(np.atleast_1d(s.threshold_at_fpr(fpr))),
           "views": {nm: _encl(getattr(c, nm)) for nm in ("tpr", "tnr", "frr", "far", "tar", "trr")},
           "ci_views_none": [getattr(c, nm + "_ci") is None for nm in ("fnr", "fpr", "tpr", "tnr", "frr", "far", "tar", "trr")],
           "tau": enc(tc.tau(dict(case, metric="topr")))}
    # a returned curve belongs to the caller: later roc() calls on OTHER objects of the same size / dtype (a bootstrap sample,
    # a shifted copy) leave its arrays alone
    held = [np.array(np.asarray(a), copy=True) for a in (c.thresholds, c.fnr, c.fpr)]
    if len(s.pos) and len(s.neg):
        from score_analysis import BootstrapConfig, Scores
        np.random.seed(len(s.pos) * 31 + len(s.neg))
        others = [s.bootstrap_sample(BootstrapConfig(sampling_method="replacement")),
                  Scores(s.pos + 1, s.neg + 1, nb_easy_pos=s.nb_easy_pos, nb_easy_neg=s.nb_easy_neg, score_class=s.score_class, equal_class=s.equal_class)]
        for o in others:
            try:
                roc(o, fnr=fnr, fpr=fpr, thresholds=thr, nb_points=case["nb_points"], x_axis=case["x_axis"])
                roc(o, nb_points=None, x_axis=case["x_axis"])
            except ValueError:
                pass
        out["held_ok"] = all(np.array_equal(np.asarray(a), b, equal_nan=True) for a, b in zip((c.thresholds, c.fnr, c.fpr), held))
    return out


# ------------------------------------------------------------------ model
def _olist(v):
    return "None" if v is None else f"(Some {cq.qlist(F(x) for x in v)})"


def _oz(v):
    return "None" if v is None else f"(Some {cq.z(v)})"


def _xaxis(x):
    return f"(XName {COQ_AXIS[x]})" if x in COQ_AXIS else "XOther"


def _rates(v):
    return "[" + "; ".join(cq.rate(F(x)) for x in v) + "]"


def _dyadic_targets(case):
    nb = case["nb_points"]
    if nb is None or case["fnr"] or case["fpr"] or case["thresholds"]:
        return True
    for m in (nb // 2, nb - nb // 2):
        if m >= 2 and (m - 1) & (m - 2):
            return False
    return True


def model_call(case):
    return (f"roc64 {tc.scores_term(case)} {_olist(case['fnr'])} {_olist(case['fpr'])} {_olist(case['thresholds'])} "
            f"{_oz(case['nb_points'])} {_xaxis(case['x_axis'])}")


def coq_term(case, res):
    if not case.get("exact") or case.get("rate_dtype"):
        return None
    if any(t in ("inf", "-inf") for t in (case["thresholds"] or [])):
        return None
    if "ok" not in res:
        if res.get("err") == "ValueError":
            return f"res_raises ({model_call(case)})"
        return "false"
    r = res["ok"]
    if not _dyadic_targets(case):
        return f"roc_agree_thr {cq.q(F(r['tau']))} ({model_call(case)}) {cq.qlist(F(x) for x in r['thresholds'])}"
    tol = 0
    return (f"roc_agree {cq.q(tol)} (Qmake 1 1125899906842624) ({model_call(case)}) {cq.qlist(F(x) for x in r['thresholds'])} "
            f"{_rates(r['fnr'])} {_rates(r['fpr'])}")


# ------------------------------------------------------------------ oracle
def oracle(case, res):
    ax = case["x_axis"]
    cfg = case["sc"] + "-" + case["ec"]
    if "ok" not in res:
        if ax not in AXES and res.get("err") == "ValueError":
            return []
        return [(f"C15/exception/{ax}", f"roc() raised {res.get('err')}: {res.get('msg')}")]
    if ax not in AXES:
        return []      # an unknown axis name is outside the property; the model says it raises (correspondence)
    r = res["ok"]
    fails = []
    n = len(r["thresholds"])
    if not (len(r["fnr"]) == n and len(r["fpr"]) == n and all(sh == [n] for sh in r["shapes"])):
        fails.append(("C15/lengths", f"thresholds/fnr/fpr have shapes {r['shapes']}"))
        return fails
    # rates are exactly the object's rates at the returned thresholds
    for nm in ("fnr", "fpr"):
        if r[nm] != r[nm + "_at"]:
            j = next(i for i in range(n) if r[nm][i] != r[nm + "_at"][i])
            fails.append((f"C15/rates-at-thresholds/{nm}/{cfg}",
                          f"curve.{nm}[{j}] = {r[nm][j]} but scores.{nm}(curve.thresholds[{j}] = {r['thresholds'][j]}) = {r[nm + '_at'][j]}"))
    # derived views
    fnr_f, fpr_f = [fl(x) for x in r["fnr"]], [fl(x) for x in r["fpr"]]
    want = {"tpr": [enc(1.0 - x) for x in fnr_f], "tnr": [enc(1.0 - x) for x in fpr_f], "frr": r["fnr"], "far": r["fpr"]}
    want["tar"], want["trr"] = want["tpr"], want["tnr"]
    for nm, w in want.items():
        if r["views"][nm] != w:
            fails.append((f"C15/view/{nm}", f"curve.{nm} = {r['views'][nm][:4]}..., expected {w[:4]}..."))
    if not all(r["ci_views_none"]):
        fails.append(("C15/view/ci", "a *_ci view of a curve without bands is not None"))
    # x-axis metric non-decreasing along the returned order
    xs = r[ax] if ax in ("fnr", "fpr") else r["views"][ax]
    xv = [F(x) for x in xs]
    if any(v is None for v in xv):
        fails.append((f"C15/nan/{ax}", "NaN in the x-axis metric although both classes are non-empty"))
    else:
        for j in range(n - 1):
            if xv[j] > xv[j + 1]:
                fails.append((f"C15/monotone/{ax}/{cfg}", f"{ax} decreases along the curve: point {j} has {xv[j]}, point {j + 1} has {xv[j + 1]} "
                              f"(thresholds {r['thresholds'][j]}, {r['thresholds'][j + 1]})"))
                break
    if r.get("held_ok") is False:
        fails.append(("C15/history/earlier-curve-changed", "the thresholds / rates of a curve returned earlier changed after later roc() calls on "
                                                           "other objects of the same size (a bootstrap sample, a shifted copy)"))
    # containment
    have = set(r["thresholds"])
    for t in case["thresholds"] or []:
        if enc(fl(t)) not in have:
            fails.append(("C15/contains/threshold", f"user threshold {t} missing from the returned thresholds"))
            break
    for nm in ("fnr", "fpr"):
        for target, t in zip(case[nm] or [], r["thr_of_" + nm] or []):
            if t not in have:
                fails.append((f"C15/contains/{nm}", f"threshold_at_{nm}({target}) = {t} missing from the returned thresholds"))
                break
    # length clause: nothing supplied
    if not (case["fnr"] or case["fpr"] or case["thresholds"]):
        expect = case["nb_points"] if case["nb_points"] is not None else len(case["pos"]) + len(case["neg"])
        if n != expect:
            fails.append((f"C15/length/{'nb_points' if case['nb_points'] is not None else 'all-scores'}",
                          f"no points supplied, nb_points={case['nb_points']}: curve has {n} points, expected {expect}"))
    return fails


def nontrivial(case, res):
    if "ok" not in res:
        return False
    r = res["ok"]
    return len(set(zip(r["fnr"], r["fpr"]))) >= 3


def distribution(cases, results):
    d = {"n": len(cases), "exact_stream": 0, "x_axis": {}, "cfg": {}, "supplied": {}, "nb_points": {}, "with_easy": 0,
         "tied": 0, "errors": 0, "empty_arrays": 0, "curve_len": {"0": 0, "1-5": 0, "6-20": 0, ">20": 0}}
    for c, r in zip(cases, results):
        d["exact_stream"] += bool(c.get("exact"))
        d["x_axis"][c["x_axis"]] = d["x_axis"].get(c["x_axis"], 0) + 1
        k = c["sc"] + "/" + c["ec"]
        d["cfg"][k] = d["cfg"].get(k, 0) + 1
        sup = "".join(ch for ch, nm in (("f", "fnr"), ("p", "fpr"), ("t", "thresholds")) if c[nm] is not None) or "none"
        d["supplied"][sup] = d["supplied"].get(sup, 0) + 1
        d["empty_arrays"] += any(c[nm] == [] for nm in ("fnr", "fpr", "thresholds"))
        d["nb_points"][str(c["nb_points"])] = d["nb_points"].get(str(c["nb_points"]), 0) + 1
        d["with_easy"] += bool(c["ep"] or c["en"])
        allv = c["pos"] + c["neg"]
        d["tied"] += len(set(allv)) < len(allv)
        d["errors"] += "ok" not in r
        if "ok" in r:
            n = len(r["ok"]["thresholds"])
            d["curve_len"]["0" if n == 0 else "1-5" if n <= 5 else "6-20" if n <= 20 else ">20"] += 1
    return d
