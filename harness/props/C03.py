"""C03 — extreme operating points are honoured exactly (targets <= 0 and >= 1)."""
from fractions import Fraction

from harness import coqio as cq
from harness import thr_common as tc
from harness.common import CONFIGS, F, enc, fl

ID = "C03"
PROPS_FILE = "Props/C03.v"
COQ_IMPORTS = "From SA Require Import Model.Harness.\nFrom SA Require Model.FloatThreshold.\nFrom Coq Require Import Floats.PrimFloat."
GEN_AVAILABLE = set()
RULE = ("Scores x 6 metrics x 4 configurations x 3 methods with targets {<0, 0, 1, >1}; relevant class sizes 1..10, "
        "easy counts 0 and > 0 (stream E: counts making the easy/hard ratios exact; stream F: arbitrary counts); "
        "the metric at the returned threshold must EQUAL its lowest / highest achievable value; non-trivial: "
        "target at or beyond an end of the scale and relevant class non-empty (single-score cases counted separately)")
TRUSTED = ["Model/FloatThreshold.v (binary64 model of threshold setting over Coq primitive floats, compared bit for bit on every case): kernel float primitives + vm_compute on hardware doubles; used by the correspondence only, no theorem depends on it",
           "np.nextafter = succ64/pred64 (Base/Carrier.v)", "exact-rational model of the rescaling; the float rescaling "
           "(r - easy)/hard is covered by the oracle on real floats and the bounded PrimFloat statement in Props/C03.v"]
ASSUMPTIONS = ["relevant class non-empty", "finite scores of moderate magnitude"]


def _ties():
    from harness.translate import scores_tr
    return [{"name": "scores.threshold-setting", "translate": scores_tr.translate_thresholds,
             "gen_file": "Gen_thr.v", "tie_file": "Tie_thr.v"}]


TIES = _ties()
EXTREMES = [Fraction(0), Fraction(1), Fraction(-3, 10), Fraction(17, 10), Fraction(-1), Fraction(2)]


def gen_cases(rng, tier):
    n = {"quick": 300, "thorough": 5000, "search": 3000}[tier]
    cases = []
    # systematic part: every metric x configuration x method on a tiny object incl. single-score classes
    k = 0
    for metric in tc.METRICS:
        for sc, ec in CONFIGS:
            for method in ("linear", "lower", "higher"):
                single = (k % 3 == 0)
                k += 1
                pos = [Fraction(3, 2)] if single else [Fraction(3, 2), Fraction(5, 2), Fraction(7, 2), Fraction(9, 2)]
                neg = [Fraction(1)] if single else [Fraction(1), Fraction(2), Fraction(3), Fraction(4)]
                cases.append({"pos": [enc(x) for x in pos], "neg": [enc(x) for x in neg], "ep": 0, "en": 0,
                              "sc": sc, "ec": ec, "metric": metric, "method": method, "exact": True,
                              "targets": [enc(t) for t in EXTREMES[:4]]})
    for _ in range(n):
        exact = rng.random() < 0.7
        c = tc.thr_case(rng, exact)
        if not exact and any(F(x).denominator > 1 << 20 for x in c["pos"] + c["neg"]) and rng.random() < 0.7:
            c = tc.thr_case(rng, True)
        c["targets"] = [enc(t) for t in rng.sample(EXTREMES, 4)]
        cases.append(c)
    # unsigned integer scores (quantised 8 / 16 bit), handed over unsorted by the shared driver
    for _ in range({"quick": 30, "thorough": 300, "search": 100}[tier]):
        c = tc.thr_case(rng, True)
        n1, n2 = rng.randint(2, 7), rng.randint(2, 7)
        c["pos"] = [enc(Fraction(v)) for v in rng.sample(range(90, 256), n1)]
        c["neg"] = [enc(Fraction(v)) for v in rng.sample(range(0, 200), n2)]
        c["dtype"] = rng.choice(["uint8", "uint16"])
        c.pop("dtype_pos", None), c.pop("dtype_neg", None)
        c["targets"] = [enc(t) for t in rng.sample(EXTREMES, 4)]
        cases.append(c)
    # the subclass FraudScores on scores in [0, 1] that include the ends of that range exactly
    for _ in range({"quick": 40, "thorough": 400, "search": 150}[tier]):
        c = tc.thr_case(rng, True)
        n1, n2 = rng.randint(1, 6), rng.randint(1, 6)
        pool = [Fraction(k_, 8) for k_ in range(9)]
        c["pos"] = [enc(x) for x in (rng.sample(pool, min(n1, 9)))]
        c["neg"] = [enc(x) for x in (rng.sample(pool, min(n2, 9)))]
        if rng.random() < 0.7:
            tgt = rng.choice(["pos", "neg"])
            c[tgt][0] = enc(Fraction(rng.choice([0, 1])))
        c["ec"] = "pos"
        c["cls"] = "fraud"
        c["dtype"] = "float64"
        c.pop("dtype_pos", None), c.pop("dtype_neg", None)
        c["targets"] = [enc(t) for t in rng.sample(EXTREMES, 4)]
        cases.append(c)
    # derived objects: smoothed replacement bootstrap samples (arbitrary doubles)
    for _j in range({"quick": 24, "thorough": 240, "search": 80}[tier]):
        c = tc.thr_case(rng, False)
        if not (c["pos"] and c["neg"]):
            continue
        c["via"], c["via_seed"], c["dtype"] = "smoothed", rng.randint(0, 10 ** 6), "float64"
        c.pop("dtype_pos", None), c.pop("dtype_neg", None)
        c["targets"] = [enc(t) for t in rng.sample(EXTREMES, 4)]
        cases.append(c)
    # targets strictly beyond the scale on arbitrary doubles, linear: both neighbours clip to the end sample s and the
    # interpolation la*s + (1-la)*s rounds (sometimes inwards) before the end-of-range rule replaces it
    for _ in range({"quick": 160, "thorough": 1500, "search": 600}[tier]):
        c = tc.thr_case(rng, False, metric=rng.choice(["fnr", "fpr", "fnr", "fpr", "tpr", "tnr", "topr", "tonr"]), method="linear")
        n1, n2 = rng.randint(1, 11), rng.randint(1, 11)
        c["pos"] = [enc(Fraction(rng.gauss(0.5, 1.0))) for _i in range(n1)]
        c["neg"] = [enc(Fraction(rng.gauss(-0.5, 1.0))) for _i in range(n2)]
        c["dtype"] = "float64"
        c.pop("dtype_pos", None), c.pop("dtype_neg", None)
        c["exact"] = False
        c["targets"] = [enc(Fraction(t)) for t in (-0.1, -0.3, 1.1, 1.7, -0.7)]
        cases.append(c)
    return cases


def run_impl(case):
    import numpy as np

    s, targets, thr, out = tc.run_thresholds(case)
    met = getattr(s, case["metric"])
    out["at_neg_inf"] = enc(float(met(-np.inf)))
    out["at_pos_inf"] = enc(float(met(np.inf)))
    return out


def coq_term(case, res):
    case = tc.effective(case, res)
    if "ok" not in res:
        return "false"
    r = res["ok"]
    # sentinels are exact doubles, so thresholds are compared exactly on every stream; and bit for bit with the binary64 model
    ft = tc.float_agree_term(case, r["thr"])
    return tc.thr_agree_term(case, r["thr"], 0, False) + (f" && {ft}" if ft else "")


def oracle(case, res):
    case = tc.effective(case, res)
    if "ok" not in res:
        return [("C03/exception", f"threshold_at_{case['metric']} raised {res.get('err')}: {res.get('msg')}")]
    r = res["ok"]
    fails = []
    lo, hi, one = tc.achievable(case)
    ends = sorted([F(r["at_neg_inf"]), F(r["at_pos_inf"])])
    mt, cfg = case["metric"], case["sc"] + "-" + case["ec"]
    rel, easy = tc.relevant(case)
    size = "single" if len(rel) == 1 else "multi"
    for j, rs in enumerate(case["targets"]):
        rq = F(rs)
        at = F(r["at"][j])
        if rq <= 0:
            want, end = ends[0], "low"
        elif rq >= 1:
            want, end = ends[1], "high"
        else:
            continue
        if at != want:
            fails.append((f"C03/extreme/{mt}/{cfg}/{end}/{size}/easy={int(easy > 0)}/{case['method']}",
                          f"threshold_at_{mt}({rs}, method={case['method']}) = {r['thr'][j]} gives {mt} = {at}; "
                          f"the {'lowest' if end == 'low' else 'highest'} achievable value is {want}"))
    return fails


def nontrivial(case, res):
    rel, _ = tc.relevant(case)
    return len(rel) >= 1 and any(F(t) <= 0 or F(t) >= 1 for t in case["targets"])


def distribution(cases, results):
    d = {"n": len(cases), "single_score_relevant": 0, "with_easy": 0, "metric": {}, "method": {}, "cfg": {}, "errors": 0}
    for c, r in zip(cases, results):
        rel, easy = tc.relevant(c)
        d["single_score_relevant"] += len(rel) == 1
        d["with_easy"] += easy > 0
        d["metric"][c["metric"]] = d["metric"].get(c["metric"], 0) + 1
        d["method"][c["method"]] = d["method"].get(c["method"], 0) + 1
        k = c["sc"] + "/" + c["ec"]
        d["cfg"][k] = d["cfg"].get(k, 0) + 1
        d["errors"] += "ok" not in r
    return d
