"""C19 — FraudScores is a faithful, validated genuine/fraud view of Scores."""
from fractions import Fraction

from harness import coqio as cq
from harness.common import F, enc, fl, nextafter

ID = "C19"
PROPS_FILE = "Props/C19.v"
COQ_IMPORTS = "From Coq Require Import Strings.String.\nFrom SA Require Import Model.HarnessC19."
GEN_AVAILABLE = set()
RULE = ("genuine/fraud arrays of size 0-8 from a pool around the [0,1] boundary (exactly 0 and 1, one ulp inside and "
        "outside, subnormals, small dyadics, arbitrary doubles, clearly outside values), in three styles: all in range, "
        "exactly one offending score (either class, barely or clearly outside), several; easy counts; score_class genuine "
        "/ fraud given as string or DocLabel member; thresholds on/between/beyond scores and +-inf; targets on and off "
        "the grid; from_labels with int labels; the translations on valid and invalid strings. A case is non-trivial "
        "when both classes are non-empty and (it is rejected, or it contains a score exactly 0 or 1, or a threshold ties "
        "a score); across the run scores lie on both sides of the boundary")
TRUSTED = ["Enum call semantics (member -> itself, string -> lookup by value, else ValueError), Enum .name, np.any(a < c), "
           "boolean-mask indexing, Scores.__init__ = mk_scores: tables of the translator, exercised by correspondence",
           "query equivalence FraudScores vs Scores(pos=genuines, neg=frauds, ...) is an implementation-vs-implementation "
           "bitwise comparison (oracle); in Coq it follows from the constructed object being that Scores object and from "
           "the translator's check that the class defines nothing but __init__, genuines, frauds, from_labels"]
ASSUMPTIONS = ["finite scores (a NaN alone passes both range tests: outside the property; a NaN NEXT TO an out-of-range score must still be rejected and is checked)",
               "queries compared: cm, the rate methods and aliases, threshold_at_* (three methods), threshold_at_metric, "
               "eer, auc (full and partial), swap().cm, the count/ratio properties"]


def _ties():
    from harness.translate import doc_fraud_tr
    return [{"name": "doc_fraud", "translate": doc_fraud_tr.translate_fraud, "gen_file": "Gen_fraud.v", "tie_file": "Tie_fraud.v"}]


TIES = _ties()

INSIDE_EDGE = [Fraction(0), Fraction(1), nextafter(1, False), Fraction(1, 2), Fraction(1, 2 ** 60)]
OUTSIDE_BARELY = [nextafter(1, True), Fraction(-1, 2 ** 60), 1 + Fraction(1, 2 ** 40)]
# subnormal neighbours of 0 (2^1074 denominators are slow to parse in coqc: used in ~4% of the cases only)
INSIDE_SUBNORMAL = nextafter(0, True)
OUTSIDE_SUBNORMAL = nextafter(0, False)
OUTSIDE_CLEAR = [Fraction(-1, 4), Fraction(5, 4), Fraction(2), Fraction(-1), Fraction(100), Fraction(-3, 2)]
BAD_STRINGS = ["pos", "neg", "Genuine", "FRAUD", "", "genuine ", "fraudulent"]


def _inside(rng):
    r = rng.random()
    if r < 0.3:
        return rng.choice(INSIDE_EDGE)
    if r < 0.75:
        return Fraction(rng.randint(0, 16), 16)
    return Fraction(rng.random())


def gen_cases(rng, tier):
    n = {"quick": 260, "thorough": 3000, "search": 1500}[tier]
    cases = []
    for k in range(n):
        style = rng.choice(["in", "in", "in", "one-out", "one-out", "many-out"])
        ng, nf = rng.choice([0, 1, 2, 3, 4, 5, 8]), rng.choice([0, 1, 2, 3, 4, 5, 8])
        g = [_inside(rng) for _ in range(ng)]
        f = [_inside(rng) for _ in range(nf)]
        if style == "in" and ng > 0 and k % 25 == 3:
            g[0] = INSIDE_SUBNORMAL
        if style == "one-out" and ng + nf > 0:
            v = rng.choice(OUTSIDE_BARELY if rng.random() < 0.6 else OUTSIDE_CLEAR)
            if k % 25 == 7:
                v = OUTSIDE_SUBNORMAL
            tgt = g if (nf == 0 or (ng > 0 and rng.random() < 0.5)) else f
            tgt[rng.randrange(len(tgt))] = v
        elif style == "many-out":
            for arr in (g, f):
                for i in range(len(arr)):
                    if rng.random() < 0.4:
                        arr[i] = rng.choice(OUTSIDE_BARELY + OUTSIDE_CLEAR)
        allv = g + f
        thr = []
        for _ in range(rng.randint(1, 4)):
            r = rng.random()
            if allv and r < 0.45:
                thr.append(enc(rng.choice(allv)))
            elif r < 0.55:
                thr.append(rng.choice(["inf", "-inf"]))
            elif r < 0.7:
                thr.append(enc(rng.choice([Fraction(0), Fraction(1), Fraction(-1, 2), Fraction(3, 2)])))
            else:
                thr.append(enc(Fraction(rng.randint(0, 32), 32)))
        targets = [enc(Fraction(float(rng.choice([Fraction(0), Fraction(1), Fraction(rng.randint(0, 8), 8), Fraction(rng.random()),
                                                   Fraction(1, 3)])))) for _ in range(rng.randint(1, 3))]
        gl = rng.choice([1, 1, 0, 7, -2])
        order = list(range(ng + nf))
        rng.shuffle(order)
        other = [v for v in (0, 1, 2, 3, 7, -2) if v != gl]
        labels_all = [gl] * ng + [rng.choice(other) for _ in range(nf)]
        cases.append({"g": [enc(v) for v in g], "f": [enc(v) for v in f], "style": style,
                      "eg": rng.choice([0, 0, 1, 3, 10]), "ef": rng.choice([0, 0, 2, 5]),
                      "sc": rng.choice(["genuine", "genuine", "fraud"]), "sc_member": rng.random() < 0.3,
                      "thr": thr, "targets": targets, "gl": gl, "order": order, "labels": [labels_all[i] for i in order],
                      "strs": rng.sample(BAD_STRINGS, 2)})
    return cases


# ------------------------------------------------------------------ implementation
def _same(a, b):
    import numpy as np

    if isinstance(a, tuple) or isinstance(b, tuple) or isinstance(a, list) or isinstance(b, list):
        if type(a) is not type(b) or len(a) != len(b):
            return False
        return all(_same(x, y) for x, y in zip(a, b))
    if isinstance(a, np.ndarray) or isinstance(b, np.ndarray):
        if not (isinstance(a, np.ndarray) and isinstance(b, np.ndarray)):
            return False
        return a.shape == b.shape and a.dtype == b.dtype and a.tobytes() == b.tobytes()
    if isinstance(a, float) and isinstance(b, float):
        return np.float64(a).tobytes() == np.float64(b).tobytes()
    return type(a) is type(b) and a == b


def _queries(thr, targets):
    import numpy as np

    qs = {"cm": lambda s: s.cm(thr).matrix}
    for name in ("tpr", "fnr", "tnr", "fpr", "topr", "tonr", "tar", "frr", "trr", "far", "acceptance_rate", "rejection_rate"):
        qs[name] = (lambda s, name=name: getattr(s, name)(thr))
    for name in ("tpr", "fnr", "tnr", "fpr", "topr", "tonr"):
        for method in ("linear", "lower", "higher"):
            qs[f"threshold_at_{name}/{method}"] = (lambda s, name=name, method=method: getattr(s, f"threshold_at_{name}")(targets, method=method))
    qs["threshold_at_metric/fnr"] = lambda s: s.threshold_at_metric(targets, "fnr")
    qs["threshold_at_metric/topr/5"] = lambda s: s.threshold_at_metric(targets, "topr", 5)
    qs["eer"] = lambda s: tuple(float(v) for v in s.eer())
    qs["auc"] = lambda s: float(s.auc())
    qs["auc/partial"] = lambda s: float(s.auc(lower=0.125, upper=0.75))
    qs["auc/fnr-fpr"] = lambda s: float(s.auc(x_axis="fnr", y_axis="fpr"))
    qs["swap.cm"] = lambda s: s.swap().cm(thr).matrix

    # bootstrap queries under a fixed global seed (same RNG stream for both objects), incl. kernel smoothing, which
    # moves scores near 0 or 1 slightly outside [0, 1]
    def boot(kind, **cfg):
        def q(s):
            from score_analysis import BootstrapConfig
            np.random.seed(20240)
            c = BootstrapConfig(nb_samples=3, **cfg)
            if kind == "sample":
                b = s.bootstrap_sample(c)
                return (np.asarray(b.pos, dtype=float), np.asarray(b.neg, dtype=float), int(b.nb_easy_pos), int(b.nb_easy_neg))
            if kind == "metric":
                return np.asarray(s.bootstrap_metric("fnr", config=c, threshold=0.5), dtype=float)
            return np.asarray(s.bootstrap_ci("fnr", config=c, threshold=0.5), dtype=float)
        return q
    qs["bootstrap_sample/replacement"] = boot("sample", sampling_method="replacement")
    qs["bootstrap_sample/smoothing"] = boot("sample", sampling_method="replacement", smoothing=True)
    qs["bootstrap_sample/by_label"] = boot("sample", sampling_method="replacement", stratified_sampling="by_label")
    qs["bootstrap_metric/smoothing"] = boot("metric", sampling_method="replacement", smoothing=True)
    qs["bootstrap_ci/quantile"] = boot("ci", sampling_method="replacement", bootstrap_method="quantile", smoothing=True)

    # every rate name (aliases included) as a bootstrap metric given BY NAME
    def boot_named(name):
        def q(s):
            from score_analysis import BootstrapConfig
            np.random.seed(777)
            return np.asarray(s.bootstrap_metric(name, config=BootstrapConfig(nb_samples=3, sampling_method="replacement"), threshold=0.5), dtype=float)
        return q
    for name in ("tpr", "fpr", "tar", "frr", "trr", "far", "acceptance_rate", "rejection_rate"):
        qs[f"bootstrap_metric/by-name/{name}"] = boot_named(name)
    for name in ("hard_pos_ratio", "hard_neg_ratio", "easy_pos_ratio", "easy_neg_ratio", "nb_easy_samples", "nb_hard_pos",
                 "nb_hard_neg", "nb_hard_samples", "nb_all_pos", "nb_all_neg", "nb_all_samples", "easy_ratio", "hard_ratio"):
        qs[name] = (lambda s, name=name: getattr(s, name))
    return qs


def _run(q, s):
    try:
        return ("ok", q(s))
    except Exception as ex:  # same exception on both objects counts as the same answer
        return ("exc", type(ex).__name__)


def run_impl(case):
    import numpy as np
    from score_analysis import Scores
    from score_analysis.applications import DocLabel, FraudScores, binary_to_doc_label, doc_to_binary_label
    from score_analysis.scores import BinaryLabel

    g = np.array([fl(v) for v in case["g"]], dtype=float)
    f = np.array([fl(v) for v in case["f"]], dtype=float)
    thr = np.array([fl(t) for t in case["thr"]], dtype=float)
    targets = np.array([fl(t) for t in case["targets"]], dtype=float)
    sc_arg = DocLabel(case["sc"]) if case["sc_member"] else case["sc"]
    out = {"raised": None}
    try:
        fs = FraudScores(genuines=g, frauds=f, nb_easy_genuines=case["eg"], nb_easy_frauds=case["ef"], score_class=sc_arg)
    except ValueError as ex:
        fs = None
        out["raised"] = "ValueError"
        out["msg"] = str(ex)[:120]
    # a class that holds a missing value AND a score outside [0,1]: the out-of-range score is still there
    nan_mix = []
    base_g = np.clip(g, 0.0, 1.0)
    base_f = np.clip(f, 0.0, 1.0)
    for tag, gg, ff in (("genuines+[1.5, nan]", np.concatenate([base_g, [1.5, np.nan]]), base_f),
                        ("frauds+[nan, 3.0, nan]", base_g, np.concatenate([[np.nan, 3.0, np.nan], base_f])),
                        ("genuines+[-0.25, nan]", np.concatenate([[-0.25], base_g, [np.nan]]), base_f)):
        try:
            import warnings as _w
            with _w.catch_warnings():
                _w.simplefilter("ignore")
                FraudScores(genuines=gg, frauds=ff, score_class=sc_arg)
            nan_mix.append([tag, "accepted"])
        except ValueError:
            nan_mix.append([tag, "ValueError"])
    out["nan_mix"] = nan_mix
    if fs is not None:
        out["is_scores"] = isinstance(fs, Scores)
        out["pos"] = [enc(float(v)) for v in fs.pos]
        out["neg"] = [enc(float(v)) for v in fs.neg]
        out["score_class"] = BinaryLabel(fs.score_class).value
        out["equal_class"] = BinaryLabel(fs.equal_class).value
        out["easy"] = [int(fs.nb_easy_pos), int(fs.nb_easy_neg)]
        out["alias_identity"] = bool(fs.genuines is fs.pos and fs.frauds is fs.neg)
        out["cm"] = [[int(v) for v in m.reshape(-1)] for m in fs.cm(thr).matrix]
        # the reference object of the property text: translated score_class written out by hand here
        ref = Scores(pos=g, neg=f, nb_easy_pos=case["eg"], nb_easy_neg=case["ef"],
                     score_class={"genuine": "pos", "fraud": "neg"}[case["sc"]], equal_class="pos")
        diffs = {}
        nq = 0
        for name, q in _queries(thr, targets).items():
            a, b = _run(q, fs), _run(q, ref)
            nq += 1
            if a[0] != b[0] or not _same(a[1], b[1]):
                diffs[name] = [repr(a)[:200], repr(b)[:200]]
        out["nqueries"] = nq
        out["diffs"] = diffs
        # the constructor takes its own copy of the scores: sorted ndarrays handed over and overwritten by the caller
        # afterwards leave the object's answers unchanged
        gs_, fs_ = np.sort(g), np.sort(f)
        fs5 = FraudScores(genuines=gs_, frauds=fs_, nb_easy_genuines=case["eg"], nb_easy_frauds=case["ef"], score_class=sc_arg)
        shared = bool((len(gs_) and np.shares_memory(fs5.pos, gs_)) or (len(fs_) and np.shares_memory(fs5.neg, fs_)))
        before5 = [int(v) for v in fs5.cm(thr).matrix.reshape(-1)]
        if len(gs_):
            gs_[:] = 0.5
        if len(fs_):
            fs_[:] = 0.5
        after5 = [int(v) for v in fs5.cm(thr).matrix.reshape(-1)]
        out["caller_buffer"] = {"shared": shared, "changed": before5 != after5}
        # setters alias too
        fs2 = FraudScores(genuines=g, frauds=f, score_class=sc_arg)
        newg, newf = np.array([0.25, 0.5]), np.array([0.125])
        fs2.genuines = newg
        fs2.frauds = newf
        out["setter_alias"] = bool(fs2.pos is newg and fs2.neg is newf)
        # history: queries, then new scores assigned through the aliases, then the queries again: they have to describe
        # the scores the object holds now (what Scores(pos=genuines, neg=frauds, ...) returns), not the earlier ones
        fs4 = FraudScores(genuines=g, frauds=f, nb_easy_genuines=case["eg"], nb_easy_frauds=case["ef"], score_class=sc_arg)
        for name, q in _queries(thr, targets).items():
            _run(q, fs4)
        g2, f2 = np.sort(1.0 - g), np.sort(f * 0.5)
        if case.get("assign_via", "alias") == "alias":
            fs4.genuines, fs4.frauds = g2, f2
        else:
            fs4.pos, fs4.neg = g2, f2
        ref2 = Scores(pos=g2, neg=f2, nb_easy_pos=case["eg"], nb_easy_neg=case["ef"],
                      score_class={"genuine": "pos", "fraud": "neg"}[case["sc"]], equal_class="pos")
        hdiffs = {}
        for name, q in _queries(thr, targets).items():
            a, b = _run(q, fs4), _run(q, ref2)
            if a[0] != b[0] or not _same(a[1], b[1]):
                hdiffs[name] = [repr(a)[:200], repr(b)[:200]]
        out["history_diffs"] = hdiffs
    # from_labels on the interleaved arrays
    scores_all = np.concatenate([g, f])[case["order"]] if len(case["order"]) else np.array([], dtype=float)
    labels = np.array(case["labels"], dtype=int)
    fl_out = {"raised": None}
    # history: the same label array was split by another genuine label just before (result discarded)
    try:
        import warnings as _w
        with _w.catch_warnings():
            _w.simplefilter("ignore")
            FraudScores.from_labels(labels, scores_all, genuine_label=case["gl"] + 1)
    except ValueError:
        pass
    try:
        fs3 = FraudScores.from_labels(labels, scores_all, genuine_label=case["gl"], nb_easy_genuines=case["eg"],
                                      nb_easy_frauds=case["ef"], score_class=sc_arg)
        fl_out.update({"type_ok": type(fs3) is FraudScores, "pos": [enc(float(v)) for v in fs3.pos], "neg": [enc(float(v)) for v in fs3.neg],
                       "score_class": BinaryLabel(fs3.score_class).value, "equal_class": BinaryLabel(fs3.equal_class).value,
                       "easy": [int(fs3.nb_easy_pos), int(fs3.nb_easy_neg)],
                       "cm": [[int(v) for v in m.reshape(-1)] for m in fs3.cm(thr).matrix]})
    except ValueError:
        fl_out["raised"] = "ValueError"
    out["from_labels"] = fl_out
    # boolean label arrays, both choices of the genuine label
    bool_out = []
    if len(scores_all) and not any(o_ for o_ in [out.get("raised")]):
        lab_b = (labels == case["gl"])
        for gl_b in (True, False):
            try:
                fb = FraudScores.from_labels(lab_b, scores_all, genuine_label=gl_b)
                bool_out.append([bool(gl_b), [enc(float(v)) for v in fb.pos], [enc(float(v)) for v in fb.neg]])
            except ValueError:
                bool_out.append([bool(gl_b), "ValueError"])
    out["from_labels_bool"] = bool_out
    # labels stored as enum members (DocLabel itself, or a user's plain Enum), genuine_label one of the members
    enum_out = []
    if len(scores_all) and out.get("raised") is None:
        import enum as _enum

        class Verdict(_enum.Enum):
            ok = "ok"
            forged = "forged"

        for En, gm, om in ((DocLabel, DocLabel("genuine"), DocLabel("fraud")), (Verdict, Verdict.ok, Verdict.forged),
                           (Verdict, Verdict.forged, Verdict.ok)):
            lab_e = np.array([gm if v == case["gl"] else om for v in labels], dtype=object)
            try:
                fe = FraudScores.from_labels(lab_e, scores_all, genuine_label=gm)
                enum_out.append([f"{En.__name__}.{gm.name}", [enc(float(v)) for v in fe.pos], [enc(float(v)) for v in fe.neg]])
            except Exception as ex:
                enum_out.append([f"{En.__name__}.{gm.name}", type(ex).__name__])
    out["from_labels_enum"] = enum_out

    def call(fn, arg):
        try:
            return fn(arg).name
        except ValueError:
            return "ValueError"

    tr = {"d2b": {}, "b2d": {}, "d2b_member": {}, "b2d_member": {}}
    for s in ["genuine", "fraud"] + case["strs"]:
        tr["d2b"][s] = call(doc_to_binary_label, s)
    for s in ["pos", "neg"] + case["strs"]:
        tr["b2d"][s] = call(binary_to_doc_label, s)
    for m in DocLabel:
        tr["d2b_member"][m.name] = call(doc_to_binary_label, m)
    for m in BinaryLabel:
        tr["b2d_member"][m.name] = call(binary_to_doc_label, m)
    tr["doc_values"] = {m.name: m.value for m in DocLabel}
    tr["roundtrip"] = bool(all(binary_to_doc_label(doc_to_binary_label(m)) is m for m in DocLabel) and
                           all(doc_to_binary_label(binary_to_doc_label(m)) is m for m in BinaryLabel))
    out["tr"] = tr
    return out


# ------------------------------------------------------------------ oracle
def _out_of_range(vals):
    return [v for v in vals if v < 0 or v > 1]


def oracle(case, res):
    if "ok" not in res:
        return [("C19/exception", f"raised {res.get('err')}: {res.get('msg')}")]
    r = res["ok"]
    fails = []
    g, f = [F(v) for v in case["g"]], [F(v) for v in case["f"]]
    bad = _out_of_range(g + f)
    if bad and r["raised"] != "ValueError":
        fails.append(("C19/range/accepted", f"constructed although scores {[float(v) for v in bad[:3]]} lie outside [0,1]"))
    if not bad and r["raised"]:
        fails.append(("C19/range/rejected", f"raised {r['raised']} ({r.get('msg')}) although all scores lie in [0,1]"))
    for tag, what in r.get("nan_mix") or []:
        if what != "ValueError":
            fails.append(("C19/range/accepted-with-nan", f"constructed although the scores ({tag}) include a value outside [0,1] next to a NaN"))
            break
    want_sc = {"genuine": "pos", "fraud": "neg"}[case["sc"]]
    if r["raised"] is None:
        if not r["is_scores"]:
            fails.append(("C19/object", "FraudScores object is not a Scores"))
        if [F(v) for v in r["pos"]] != sorted(g) or [F(v) for v in r["neg"]] != sorted(f):
            fails.append(("C19/object", "pos/neg are not the sorted genuine/fraud scores"))
        if r["score_class"] != want_sc or r["equal_class"] != "pos" or r["easy"] != [case["eg"], case["ef"]]:
            fails.append(("C19/object", f"score_class={r['score_class']} equal_class={r['equal_class']} easy={r['easy']}, "
                          f"expected {want_sc}/pos/{[case['eg'], case['ef']]}"))
        if not r["alias_identity"] or not r["setter_alias"]:
            fails.append(("C19/alias", "genuines/frauds do not alias pos/neg"))
        for name, (a, b) in sorted(r["diffs"].items()):
            fails.append((f"C19/query/{name.split('/')[0]}", f"{name}: FraudScores gives {a}, Scores(pos=genuines, neg=frauds, "
                          f"score_class={want_sc}, equal_class=pos) gives {b}"))
        for name, (a, b) in sorted((r.get("history_diffs") or {}).items()):
            fails.append((f"C19/history/{name.split('/')[0]}", f"{name} after earlier queries and new scores assigned through the "
                          f"genuines/frauds aliases: FraudScores gives {a}, Scores(pos=genuines, neg=frauds, ...) of the current "
                          f"scores gives {b}"))
    # from_labels
    fl_ = r["from_labels"]
    if bad and fl_["raised"] != "ValueError":
        fails.append(("C19/from_labels/range", "from_labels accepted out-of-range scores"))
    if not bad and fl_["raised"]:
        fails.append(("C19/from_labels/range", "from_labels raised although all scores lie in [0,1]"))
    if fl_["raised"] is None:
        if not fl_["type_ok"]:
            fails.append(("C19/from_labels/type", "from_labels did not return a FraudScores"))
        if [F(v) for v in fl_["pos"]] != sorted(g) or [F(v) for v in fl_["neg"]] != sorted(f):
            fails.append(("C19/from_labels/split", f"from_labels(genuine_label={case['gl']}) did not split by the genuine label"))
        if fl_["score_class"] != want_sc or fl_["equal_class"] != "pos" or fl_["easy"] != [case["eg"], case["ef"]]:
            fails.append(("C19/from_labels/config", "from_labels lost score_class / easy counts"))
    for item in r.get("from_labels_enum") or []:
        if len(item) == 2:
            fails.append(("C19/from_labels/enum-members", f"from_labels with labels stored as enum members and genuine_label={item[0]} raised {item[1]}"))
        elif [F(v) for v in item[1]] != sorted(g) or [F(v) for v in item[2]] != sorted(f):
            fails.append(("C19/from_labels/enum-members", f"from_labels with labels stored as enum members and genuine_label={item[0]} did not "
                                                          f"take the samples carrying that member as genuines ({len(item[1])} genuines, want {len(g)})"))
    for item in r.get("from_labels_bool") or []:
        if item[1] == "ValueError":
            if not bad:
                fails.append(("C19/from_labels/bool", f"from_labels with boolean labels and genuine_label={item[0]} raised"))
            continue
        gl_b, pb, nb_ = item
        wp, wn = (sorted(g), sorted(f)) if gl_b else (sorted(f), sorted(g))
        if [F(v) for v in pb] != wp or [F(v) for v in nb_] != wn:
            fails.append(("C19/from_labels/bool", f"from_labels with boolean labels and genuine_label={gl_b} did not take the samples "
                                                  f"labelled {gl_b} as genuines"))
    cb = r.get("caller_buffer")
    if cb and (cb["shared"] or cb["changed"]):
        fails.append(("C19/caller-buffer", "FraudScores built from already sorted ndarrays keeps the caller's arrays: "
                                           + ("its score arrays share memory with them" if cb["shared"] else "")
                                           + ("; its confusion matrices changed when the caller overwrote them" if cb["changed"] else "")))
    # translations
    tr = r["tr"]
    if tr["d2b"]["genuine"] != "pos" or tr["d2b"]["fraud"] != "neg" or tr["d2b_member"] != {"pos": "pos", "neg": "neg"}:
        fails.append(("C19/translation", f"doc_to_binary_label: {tr['d2b']} {tr['d2b_member']}"))
    if tr["b2d"]["pos"] != "pos" or tr["b2d"]["neg"] != "neg" or tr["b2d_member"] != {"pos": "pos", "neg": "neg"}:
        fails.append(("C19/translation", f"binary_to_doc_label: {tr['b2d']} {tr['b2d_member']}"))
    if tr["doc_values"] != {"pos": "genuine", "neg": "fraud"}:
        fails.append(("C19/translation", f"DocLabel members {tr['doc_values']}"))
    if not tr["roundtrip"]:
        fails.append(("C19/translation", "translations are not mutually inverse"))
    return fails


# ------------------------------------------------------------------ correspondence
def _cmz(m):
    return f"(mkCmz {cq.z(m[0])} {cq.z(m[1])} {cq.z(m[2])} {cq.z(m[3])})"


def _agree(term, r, thr):
    raised = r["raised"] == "ValueError"
    if raised:
        return f"(fraud_agree {term} true [] [] 0%Z 0%Z Pos Pos [] [])"
    cms = "[" + "; ".join(_cmz(m) for m in r["cm"]) + "]"
    return (f"(fraud_agree {term} false {cq.qlist(F(v) for v in r['pos'])} {cq.qlist(F(v) for v in r['neg'])} "
            f"{cq.z(r['easy'][0])} {cq.z(r['easy'][1])} {cq.label(r['score_class'])} {cq.label(r['equal_class'])} {thr} {cms})")


def _coq_str(s):
    return '"' + s + '"%string'


def coq_term(case, res):
    if "ok" not in res:
        return "false"
    r = res["ok"]
    g, f = cq.qlist(F(v) for v in case["g"]), cq.qlist(F(v) for v in case["f"])
    sc = ("(DMember " + {"genuine": "DocPos", "fraud": "DocNeg"}[case["sc"]] + ")") if case["sc_member"] else f"(DStr {_coq_str(case['sc'])})"
    thr = "[" + "; ".join(cq.ext(t if t in ("inf", "-inf") else F(t)) for t in case["thr"]) + "]"
    args = f"{g} {f} {cq.z(case['eg'])} {cq.z(case['ef'])} {sc}"
    parts = [_agree(f"(fraud_scores {args})", r, thr)]
    vals = [F(v) for v in case["g"] + case["f"]]
    xs = cq.qlist(vals[i] for i in case["order"])
    fargs = f"{cq.zlist(case['labels'])} {xs} {cq.z(case['gl'])} {cq.z(case['eg'])} {cq.z(case['ef'])} {sc}"
    parts.append(_agree(f"(fraud_from_labels {fargs})", r["from_labels"], thr))
    if "Gen_fraud" in GEN_AVAILABLE:
        parts.append(_agree(f"(Gen.Gen_fraud.gen_init {args})", r, thr))
        parts.append(_agree(f"(Gen.Gen_fraud.gen_from_labels {fargs})", r["from_labels"], thr))
    lab = {"pos": "(Ok Pos)", "neg": "(Ok Neg)", "ValueError": "ErrValue"}
    doc = {"pos": "(Ok DocPos)", "neg": "(Ok DocNeg)", "ValueError": "ErrValue"}
    for s, v in r["tr"]["d2b"].items():
        parts.append(f"res_label_eqb (doc_to_binary_label (DStr {_coq_str(s)})) {lab[v]}")
    for s, v in r["tr"]["b2d"].items():
        parts.append(f"res_doc_eqb (binary_to_doc_label (BStr {_coq_str(s)})) {doc[v]}")
    for m, v in r["tr"]["d2b_member"].items():
        parts.append(f"res_label_eqb (doc_to_binary_label (DMember {'DocPos' if m == 'pos' else 'DocNeg'})) {lab[v]}")
    for m, v in r["tr"]["b2d_member"].items():
        parts.append(f"res_doc_eqb (binary_to_doc_label (BMember {'Pos' if m == 'pos' else 'Neg'})) {doc[v]}")
    return "(" + " && ".join(parts) + ")"


# ------------------------------------------------------------------ bookkeeping
def nontrivial(case, res):
    if not case["g"] or not case["f"] or "ok" not in res:
        return False
    vals = [F(v) for v in case["g"] + case["f"]]
    if res["ok"]["raised"]:
        return True
    return any(v in (0, 1) for v in vals) or any(t not in ("inf", "-inf") and F(t) in vals for t in case["thr"])


def distribution(cases, results):
    d = {"n": len(cases), "style": {}, "rejected": 0, "accepted": 0, "empty_genuines": 0, "empty_frauds": 0, "boundary_0_or_1": 0,
         "barely_outside": 0, "score_class": {"genuine": 0, "fraud": 0}, "sc_as_member": 0, "easy_counts_nonzero": 0,
         "queries_compared": 0, "errors": 0}
    barely = set(OUTSIDE_BARELY + [OUTSIDE_SUBNORMAL])
    for c, res in zip(cases, results):
        d["style"][c["style"]] = d["style"].get(c["style"], 0) + 1
        d["empty_genuines"] += not c["g"]
        d["empty_frauds"] += not c["f"]
        vals = [F(v) for v in c["g"] + c["f"]]
        d["boundary_0_or_1"] += any(v in (0, 1) for v in vals)
        d["barely_outside"] += any(v in barely for v in vals)
        d["score_class"][c["sc"]] += 1
        d["sc_as_member"] += bool(c["sc_member"])
        d["easy_counts_nonzero"] += bool(c["eg"] or c["ef"])
        if "ok" not in res:
            d["errors"] += 1
            continue
        d["rejected" if res["ok"]["raised"] else "accepted"] += 1
        d["queries_compared"] += res["ok"].get("nqueries", 0)
    return d
