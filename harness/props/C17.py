"""C17 — general threshold search: utils.invert_pl_function and Scores.threshold_at_metric."""
from fractions import Fraction

from harness import coqio as cq
from harness.common import CONFIGS, F, enc, fl

ID = "C17"
PROPS_FILE = "Props/C17.v"
COQ_IMPORTS = "From SA Require Import Model.HarnessC17.\nFrom SA Require Model.FloatInvertPL.\nFrom Coq Require Import Floats.PrimFloat."
GEN_AVAILABLE = set()


def _ties():
    from harness.translate import invertpl_tr
    return [{"name": "utils.invert_pl_function: crossing masks, interpolation, closest-point distance (array plumbing pinned)",
             "translate": invertpl_tr.translate_invert_pl, "gen_file": "Gen_invertpl.v", "tie_file": "Tie_invertpl.v"}]


TIES = _ties()
RULE = ("two streams. inv: invert_pl_function on structured curves (x non-decreasing with duplicate abscissae carrying "
        "equal y; y from small pools so that targets are touched, crossed, sit on plateaus, lie outside the range; "
        "monotone, zig-zag, constant curves; n = 0..10; power-of-two differences (exact float arithmetic) and arbitrary "
        "doubles; scalar and array targets incl. empty). tam: Scores.threshold_at_metric with the six rate metrics by "
        "name and as a recording callable, points None / int k / user array, all four configurations, easy counts, and "
        "the ValueError guards. A case is non-trivial when some target has >= 2 solutions or none (fallback)")
TRUSTED = ["Model/FloatInvertPL.v (binary64 model of invert_pl_function over Coq primitive floats, compared bit for bit on every finite inv case): kernel float primitives + vm_compute on hardware doubles; correspondence only",
           "numpy broadcasting of the (N,1)x(1,T) comparison, np.nonzero row-major order, np.argmin = first minimal "
           "index, np.linspace(start, stop, k) = start + i*(stop-start)/(k-1): modelled, checked by correspondence",
           "float rounding of la and of the convex sum is outside the exact-rational model: bit-exact comparison only on "
           "cases where every float operation is exact (decided per case in exact arithmetic), 2^-40 relative otherwise"]
ASSUMPTIONS = ["x non-decreasing, equal x carry equal y, len(x) = len(y), all values finite (the docstring's and the "
               "property's quantifier); NaN metric values (empty class) are outside",
               "completeness is claimed for strict sign changes and for touches at a sample that is not the last one; a "
               "touch at the last sample is not reported when another crossing exists (Example "
               "C17_last_sample_touch_not_reported) - the property text does not claim 'all solutions'"]

EPS = Fraction(1, 2 ** 52)
METRICS = ["tpr", "fnr", "tnr", "fpr", "topr", "tonr"]


# ------------------------------------------------------------------ generators
def _curve(rng, style):
    """returns (x, y) lists of Fractions obeying the docstring's assumptions"""
    n = rng.choice([0, 1, 2, 2, 3, 3, 4, 4, 5, 5, 6, 6, 7, 8, 9, 10])
    if style == "float":
        x = sorted(Fraction(rng.gauss(0, 3)) for _ in range(n))
        y = [Fraction(rng.gauss(0, 1)) for _ in range(n)]
        return x, y
    if style == "near":  # y values one or two ulp apart around 1.0
        x = [Fraction(i) for i in range(n)]
        y = [Fraction(1) + rng.randint(-2, 2) * EPS for _ in range(n)]
        return x, y
    den = rng.choice([1, 1, 2, 4])
    x, cur = [], Fraction(rng.randint(-8, 8), den)
    for _ in range(n):
        x.append(cur)
        r = rng.random()
        if r < 0.25:
            pass  # duplicate abscissa
        else:
            cur += Fraction(rng.choice([1, 1, 2, 3, 4]), den)
    if style == "pool":
        pool = [Fraction(v) for v in rng.sample(range(-3, 4), rng.randint(1, 3))]
        y = [rng.choice(pool) for _ in range(n)]
    elif style == "pow2":  # consecutive differences are 0 or +-2^k: la is exact in binary64
        y, v = [], Fraction(rng.randint(-4, 4))
        for _ in range(n):
            y.append(v)
            v += rng.choice([0, 1, -1, 2, -2, 4, -4, Fraction(1, 2), Fraction(-1, 2)])
    elif style == "mono":
        y, v = [], Fraction(rng.randint(-4, 4), 2)
        sgn = rng.choice([1, -1])
        for _ in range(n):
            y.append(v)
            v += sgn * Fraction(rng.choice([0, 0, 1, 2, 3]), 2)
    elif style == "const":
        y = [Fraction(rng.randint(-2, 2))] * n
    else:  # zigzag around a level
        lvl = Fraction(rng.randint(-2, 2))
        y = [lvl + (1 if i % 2 == 0 else -1) * Fraction(rng.choice([0, 1, 1, 2, 3]), rng.choice([1, 2])) for i in range(n)]
    for i in range(1, n):  # equal x carry equal y
        if x[i] == x[i - 1]:
            y[i] = y[i - 1]
    return x, y


def _targets(rng, y, style):
    ts = []
    k = rng.choice([0, 1, 1, 2, 3, 4])
    for _ in range(k):
        r = rng.random()
        if y and r < 0.35:
            ts.append(rng.choice(y))                           # touch / plateau
        elif y and r < 0.7:
            a, b = rng.choice(y), rng.choice(y)
            ts.append(a + (b - a) * rng.choice([Fraction(1, 2), Fraction(1, 4), Fraction(3, 4), Fraction(1, 3)]))  # between two sample values
        elif y and r < 0.8:
            ts.append(rng.choice([max(y) + rng.choice([1, Fraction(1, 2)]), min(y) - rng.choice([1, Fraction(1, 4)])]))
        elif y and r < 0.85:
            ts.append(rng.choice([max(y), min(y)]))
        elif style in ("float", "near") and y:
            ts.append(Fraction(float(rng.choice(y)) + rng.choice([0.0, 1e-16, -1e-16, 0.37])))
        else:
            ts.append(Fraction(rng.randint(-16, 16), 4))
    return ts


def _inv_case(rng):
    style = rng.choice(["pool", "pool", "pool", "pow2", "pow2", "mono", "const", "zigzag", "zigzag", "float", "near"])
    x, y = _curve(rng, style)
    ts = [Fraction(float(t)) for t in _targets(rng, y, style)]  # every input is a double
    if style in ("pool", "pow2", "zigzag", "mono") and rng.random() < 0.2:
        # same curve at a tiny (or huge) magnitude: y and the targets scaled by an exact power of two, so that the
        # products of two differences y - t leave the binary64 range while every difference stays exact
        sc2 = Fraction(2) ** rng.choice([-550, -600, -520, 520])
        y = [v * sc2 for v in y]
        ts = [t * sc2 for t in ts]
        style = style + "-scaled"
    scalar = rng.random() < 0.35
    if scalar:
        ts = ts[:1] if ts else [Fraction(rng.randint(-3, 3))]
    return {"kind": "inv", "style": style, "x": [enc(v) for v in x], "y": [enc(v) for v in y],
            "t": [enc(v) for v in ts], "scalar": scalar,
            "tform": rng.choice(["pyfloat", "np64", "0d", "0d"]) if scalar else rng.choice(["array", "array", "list", "tuple"])}


def _tam_case(rng, k):
    style = rng.choice(["ties", "dyadic", "ints", "distinct", "float"])
    guard = k % 9 == 0  # aim at the ValueError guards
    if guard:
        npos, nneg = rng.choice([(0, 0), (1, 0), (0, 1), (1, 1), (2, 0), (0, 3), (2, 2)])
    else:
        npos, nneg = rng.choice([1, 2, 3, 4, 4, 7, 8]), rng.choice([1, 2, 3, 4, 4, 7, 8])

    def vals(n):
        if style == "ties" or (guard and rng.random() < 0.6):
            pool = [Fraction(rng.randint(-3, 3)) for _ in range(1 if guard else 3)]
            return [rng.choice(pool) for _ in range(n)]
        if style == "float":
            return [Fraction(rng.gauss(0, 1)) for _ in range(n)]
        if style == "distinct":
            return [Fraction(v, 4) for v in rng.sample(range(-40, 40), n)]
        return [Fraction(rng.randint(-12, 12), rng.choice([1, 2, 4])) for _ in range(n)]

    pos, neg = vals(npos), vals(nneg)
    ep, en = rng.choice([(0, 0), (0, 0), (1, 0), (0, 4), (3, 1)])
    if npos + ep in (1, 2, 4, 8) and rng.random() < 0.5:
        pass
    sc, ec = rng.choice(CONFIGS)
    defined = [m for m in METRICS if
               (m in ("tpr", "fnr") and npos + ep > 0) or (m in ("tnr", "fpr") and nneg + en > 0) or
               (m in ("topr", "tonr") and npos + nneg + ep + en > 0)]
    metric = rng.choice(defined) if defined else "tpr"
    allv = sorted(pos + neg)
    mode = rng.choice(["none", "none", "int", "int", "arr"])
    if mode == "none":
        points = None
    elif mode == "int":
        points = rng.choice([2, 3, 5, 9, 17, 4, 7, 11] + ([0, 1] if guard else []))
    else:
        lo = (allv[0] if allv else Fraction(0)) - 1
        hi = (allv[-1] if allv else Fraction(0)) + 1
        m = rng.choice([1, 2, 3, 5, 8])
        pts = sorted(rng.choice(allv) if (allv and rng.random() < 0.4) else
                     lo + (hi - lo) * Fraction(rng.randint(0, 16), 16) for _ in range(m))
        points = [enc(Fraction(float(p))) for p in sorted(Fraction(float(p)) for p in pts)]
    tot = {"tpr": npos + ep, "fnr": npos + ep, "tnr": nneg + en, "fpr": nneg + en}.get(metric, npos + nneg + ep + en)
    ts = []
    for _ in range(rng.choice([1, 1, 2, 3])):
        r = rng.random()
        if tot and r < 0.5:
            ts.append(Fraction(rng.randint(0, tot), tot))       # on the grid: touches and plateaus
        elif tot and r < 0.8:
            ts.append(Fraction(2 * rng.randint(0, tot - 1) + 1, 2 * tot) if tot > 0 else Fraction(1, 2))
        elif r < 0.9:
            ts.append(rng.choice([Fraction(-1, 4), Fraction(5, 4)]))  # outside the range of any rate
        else:
            ts.append(Fraction(rng.randint(0, 16), 16))
    ts = [Fraction(float(t)) for t in ts]
    scalar = rng.random() < 0.4
    if scalar:
        ts = ts[:1]
    cls = "group" if (ep == 0 and en == 0 and rng.random() < 0.45) else "scores"   # GroupScores has no easy samples
    return {"kind": "tam", "style": style, "pos": [enc(v) for v in pos], "neg": [enc(v) for v in neg], "ep": ep, "en": en,
            "sc": sc, "ec": ec, "metric": metric, "points": points, "t": [enc(v) for v in ts], "scalar": scalar,
            "cls": cls, "gseed": rng.randint(0, 10**6),
            "tform": rng.choice(["pyfloat", "np64", "0d", "0d"]) if scalar else rng.choice(["array", "array", "list", "tuple"])}


def gen_cases(rng, tier):
    n_inv, n_tam = {"quick": (500, 260), "thorough": (6000, 3000), "search": (3000, 1500)}[tier]
    fixed = [
        # the touch table of DESIGN A.5 and its boundary rows
        {"kind": "inv", "style": "table", "x": ["0/1", "1/1", "2/1"], "y": ["0/1", "1/1", "2/1"], "t": ["1/1"], "scalar": True},
        {"kind": "inv", "style": "table", "x": ["0/1", "1/1", "2/1"], "y": ["2/1", "1/1", "0/1"], "t": ["1/1"], "scalar": True},
        {"kind": "inv", "style": "table", "x": ["0/1", "1/1", "2/1"], "y": ["0/1", "1/1", "0/1"], "t": ["1/1"], "scalar": True},
        {"kind": "inv", "style": "table", "x": ["0/1", "1/1", "2/1"], "y": ["2/1", "1/1", "2/1"], "t": ["1/1"], "scalar": True},
        {"kind": "inv", "style": "table", "x": ["0/1", "1/1", "2/1", "3/1"], "y": ["0/1", "1/1", "1/1", "0/1"], "t": ["1/1"], "scalar": False},
        {"kind": "inv", "style": "table", "x": ["0/1", "1/1", "2/1"], "y": ["0/1", "0/1", "1/1"], "t": ["1/1", "0/1", "1/2", "3/1"], "scalar": False},
        {"kind": "inv", "style": "table", "x": ["0/1", "1/1", "1/1", "2/1"], "y": ["0/1", "1/1", "1/1", "0/1"], "t": ["1/1"], "scalar": True},
        {"kind": "inv", "style": "table", "x": ["0/1", "1/1", "2/1"], "y": ["0/1", "2/1", "1/1"], "t": ["1/1"], "scalar": True},
        {"kind": "inv", "style": "table", "x": ["3/1"], "y": ["1/1"], "t": ["1/1", "7/1"], "scalar": False},
        {"kind": "inv", "style": "table", "x": [], "y": [], "t": ["1/1"], "scalar": False},
        {"kind": "inv", "style": "table", "x": ["0/1", "1/1"], "y": ["0/1", "1/1"], "t": [], "scalar": False},
    ]
    cases = list(fixed)
    # long curves (more samples than any internal block size is likely to be): strictly increasing, one solution per
    # target, targets in the segments around multiples of 4096 / 1024 / 1000 and in random segments
    for _ in range({"quick": 2, "thorough": 6, "search": 3}[tier]):
        n = rng.choice([4100, 8200, 9000, 5000])
        y, v = [], Fraction(rng.randint(-4, 4))
        for _i in range(n):
            y.append(v)
            v += rng.choice([1, 2, Fraction(1, 2), 4])
        x = [Fraction(i) for i in range(n)]
        segs = [j for j in (1023, 1024, 999, 1000, 4095, 4096, 8191, 8192, n - 2, 0) if j < n - 1] + [rng.randrange(n - 1) for _ in range(4)]
        ts = [(y[j] + y[j + 1]) / 2 for j in segs]
        cases.append({"kind": "inv", "style": "long", "x": [enc(a) for a in x], "y": [enc(a) for a in y],
                      "t": [enc(a) for a in ts], "scalar": False, "tform": "array"})
    cases += [_inv_case(rng) for _ in range(n_inv)]
    cases += [_tam_case(rng, k) for k in range(n_tam)]
    return cases


# ------------------------------------------------------------------ implementation
def _canon(res, scalar):
    """result of invert_pl_function -> {'bare': bool, 'n_entries': int|None, 'sols': [[exact...]]}"""
    import numpy as np

    if isinstance(res, np.ndarray):
        return {"bare": True, "sols": [[enc(float(v)) for v in np.asarray(res, dtype=float).reshape(-1)]]}
    if isinstance(res, list):
        return {"bare": False, "sols": [[enc(float(v)) for v in np.asarray(z, dtype=float).reshape(-1)] for z in res],
                "all_arrays": all(isinstance(z, np.ndarray) for z in res)}
    return {"bare": None, "type": type(res).__name__, "sols": []}


def run_impl(case):
    import numpy as np
    from score_analysis import Scores, utils

    tv = [fl(t) for t in case["t"]]
    # the argument form of the target: Python float / NumPy scalar / 0-d array are scalars, list / tuple / ndarray are arrays
    tform = case.get("tform", "np64" if case["scalar"] else "array")
    if case["scalar"]:
        target = {"pyfloat": float(tv[0]), "np64": np.float64(tv[0]), "0d": np.array(tv[0], dtype=float)}[tform]
    else:
        target = {"array": np.array(tv, dtype=float), "list": list(tv), "tuple": tuple(tv)}[tform]
    if case["kind"] == "inv":
        x = np.array([fl(v) for v in case["x"]], dtype=float)
        y = np.array([fl(v) for v in case["y"]], dtype=float)
        try:
            res = utils.invert_pl_function(x, y, target)
        except ValueError as ex:
            return {"raised": "ValueError", "msg": str(ex)[:200]}
        return _canon(res, case["scalar"])
    pos = np.array([fl(v) for v in case["pos"]], dtype=float)
    neg = np.array([fl(v) for v in case["neg"]], dtype=float)
    if case.get("cls") == "group":
        # the same data as a GroupScores object (arrays given unsorted, arbitrary group labels): threshold_at_metric is
        # inherited and has to give what it gives on the plain object
        import random as _random
        from score_analysis import GroupScores

        g = _random.Random(case.get("gseed", 0))
        s = GroupScores(pos, neg, pos_groups=np.array([g.choice([0, 1, 2]) for _ in pos], dtype=int),
                        neg_groups=np.array([g.choice([0, 1, 2]) for _ in neg], dtype=int),
                        score_class=case["sc"], equal_class=case["ec"])
    else:
        s = Scores(pos, neg, nb_easy_pos=case["ep"], nb_easy_neg=case["en"], score_class=case["sc"], equal_class=case["ec"])
    pts_arg = case["points"]
    if isinstance(pts_arg, list):
        pts_arg = np.array([fl(v) for v in pts_arg], dtype=float)
    rec = {}

    def recording(sample, points):
        rec["same_object"] = sample is s
        rec["pts"] = np.array(points, dtype=float, copy=True)
        vals = getattr(Scores, case["metric"])(sample, points)
        rec["y"] = np.array(vals, dtype=float, copy=True)
        return vals

    out = {}
    try:
        by_name = s.threshold_at_metric(target, case["metric"], pts_arg)
        out["by_name"] = _canon(by_name, case["scalar"])
    except ValueError as ex:
        out["raised"] = "ValueError"
        out["msg"] = str(ex)[:200]
    try:
        by_call = s.threshold_at_metric(target, recording, pts_arg)
        out["by_callable"] = _canon(by_call, case["scalar"])
    except ValueError:
        out["callable_raised"] = "ValueError"
    # the same metric at a tiny magnitude (values and target scaled by 2^-550: exact, and the solutions are unchanged)
    tiny = 2.0 ** -550
    try:
        t_tiny = (np.asarray(target, dtype=float) * tiny if not case["scalar"] else
                  {"pyfloat": float, "np64": np.float64, "0d": (lambda v: np.array(v, dtype=float))}[tform](tv[0] * tiny))
        by_tiny = s.threshold_at_metric(t_tiny, lambda sample, points: getattr(Scores, case["metric"])(sample, points) * tiny, pts_arg)
        out["by_tiny"] = _canon(by_tiny, case["scalar"])
    except ValueError:
        out["tiny_raised"] = "ValueError"
    if "pts" in rec:
        out["pts"] = [enc(float(v)) for v in rec["pts"].reshape(-1)]
        out["pts_ndim"] = int(rec["pts"].ndim)
        out["y"] = [enc(float(v)) for v in rec["y"].reshape(-1)]
        out["same_object"] = bool(rec["same_object"])
        y_again = np.asarray(getattr(s, case["metric"])(rec["pts"]), dtype=float)
        out["y_again_equal"] = bool(np.array_equal(y_again, rec["y"], equal_nan=True))
        try:
            direct = utils.invert_pl_function(rec["pts"], rec["y"], target)
            out["direct"] = _canon(direct, case["scalar"])
        except ValueError:
            out["direct_raised"] = "ValueError"
    return out


# ------------------------------------------------------------------ exact reference scan (independent of the code's masks)
def _scan(x, y, t):
    """segments that must be represented: strict sign changes and touches at a non-last sample.
       returns list of (j, exact solution)"""
    out = []
    for j in range(len(y) - 1):
        a, b = y[j] - t, y[j + 1] - t
        if a * b < 0:
            out.append((j, x[j] + (x[j + 1] - x[j]) * (t - y[j]) / (y[j + 1] - y[j])))
        elif a == 0 and b != 0:
            out.append((j, x[j]))
    return out


def _is_double(v):
    try:
        return Fraction(float(v)) == v
    except OverflowError:
        return False


def _float_exact(x, y, t, segs):
    """True when every float operation of la / z is exact for all listed segments"""
    for j, _ in segs:
        la = (t - y[j]) / (y[j + 1] - y[j])
        vals = [t - y[j], y[j + 1] - y[j], la, 1 - la, (1 - la) * x[j], la * x[j + 1], (1 - la) * x[j] + la * x[j + 1]]
        if not all(_is_double(v) for v in vals):
            return False
    return True


def _pl_value(x, y, z):
    """values of the interpolant at z (exact); several when z sits on a sample shared by segments"""
    vals = []
    for j in range(len(x)):
        if x[j] == z:
            vals.append(y[j])
    for j in range(len(x) - 1):
        if x[j] < x[j + 1] and x[j] <= z <= x[j + 1]:
            vals.append(y[j] + (y[j + 1] - y[j]) * (z - x[j]) / (x[j + 1] - x[j]))
    return vals


def _check_inversion(x, y, ts, scalar, r, tag):
    """the property on one call: x, y, ts exact lists; r canonical result"""
    fails = []
    if r.get("bare") is None:
        return [(f"{tag}/shape", f"result is a {r.get('type')}")]
    if scalar and not r["bare"]:
        fails.append((f"{tag}/shape", "scalar target did not give a bare array"))
    if not scalar:
        if r["bare"]:
            fails.append((f"{tag}/shape", "array target gave a bare array instead of a list of arrays"))
        elif len(r["sols"]) != len(ts) or not r.get("all_arrays", True):
            fails.append((f"{tag}/shape", f"{len(r['sols'])} entries for {len(ts)} targets"))
    if fails:
        return fails
    n = len(x)
    xmax = max([abs(v) for v in x] + [Fraction(1)])
    ymax = max([abs(v) for v in y] + [abs(t) for t in ts] + [Fraction(1)])
    tolx = 16 * EPS * xmax  # a few ulp of the abscissa scale
    for k, t in enumerate(ts):
        sol = [F(v) for v in r["sols"][k]]
        if any(not isinstance(v, Fraction) for v in sol):
            fails.append((f"{tag}/solution", f"target {t}: non-finite point returned {r['sols'][k]}"))
            continue
        segs = _scan(x, y, t)
        if segs:
            if len(sol) != len(segs):
                fails.append((f"{tag}/completeness", f"target {t}: {len(sol)} points returned {[float(v) for v in sol]}, but the samples "
                              f"cross or touch the target on {len(segs)} segments {[j for j, _ in segs]}"))
                continue
            exact = _float_exact(x, y, t, segs)
            for i, (z, (j, ze)) in enumerate(zip(sol, segs)):
                if abs(z - ze) > (0 if exact else tolx):
                    fails.append((f"{tag}/solution", f"target {t}: point {float(z)} is not the solution {float(ze)} of the "
                                  f"interpolant in segment {j}"))
                elif exact and not any(v == t for v in _pl_value(x, y, z)):
                    fails.append((f"{tag}/solution", f"target {t}: interpolant at returned point {float(z)} is "
                                  f"{[float(v) for v in _pl_value(x, y, z)]}, not the target"))
                if z < x[0] - tolx or z > x[-1] + tolx or (exact and not (x[0] <= z <= x[-1])):
                    fails.append((f"{tag}/range", f"target {t}: point {float(z)} outside the sampled range"))
                if i > 0:
                    gap = segs[i][1] - segs[i - 1][1]
                    if (exact or gap > 2 * tolx) and not sol[i - 1] < z:
                        fails.append((f"{tag}/order", f"target {t}: returned points not strictly increasing {[float(v) for v in sol]}"))
        else:
            if len(sol) != 1:
                fails.append((f"{tag}/fallback", f"target {t}: no crossing or touch, expected the single closest sample, got {[float(v) for v in sol]}"))
                continue
            best = min(abs(v - t) for v in y)
            tie_tol = 4 * EPS * ymax if not all(_is_double(v - t) for v in y) else 0
            cands = [x[j] for j in range(n) if abs(y[j] - t) <= best + tie_tol]
            if sol[0] not in cands:
                fails.append((f"{tag}/fallback", f"target {t}: returned {float(sol[0])}, the closest sample value is at x in {[float(c) for c in cands]}"))
    return fails


def _wf_curve(x, y):
    return (len(x) == len(y) and all(x[i] <= x[i + 1] for i in range(len(x) - 1)) and
            all(y[i] == y[i + 1] for i in range(len(x) - 1) if x[i] == x[i + 1]))


def oracle(case, res):
    if "ok" not in res:
        return [("C17/exception", f"call raised {res.get('err')}: {res.get('msg')}")]
    r = res["ok"]
    ts = [F(t) for t in case["t"]]
    if case["kind"] == "inv":
        x = [F(v) for v in case["x"]]
        y = [F(v) for v in case["y"]]
        if not x:
            return []  # no samples: outside the quantifier (the guard is compared with the model)
        if r.get("raised"):
            return [("C17/exception", f"invert_pl_function raised {r['raised']}: {r.get('msg')}")]
        return _check_inversion(x, y, ts, case["scalar"], r, "C17/inv") if _wf_curve(x, y) else []
    # threshold_at_metric
    allv = sorted(F(v) for v in case["pos"] + case["neg"])
    distinct = len(set(allv))
    pts_arg = case["points"]
    inside = distinct >= 2 and (pts_arg is None or isinstance(pts_arg, list) or pts_arg >= 2)
    if isinstance(pts_arg, list) and len(pts_arg) == 0:
        inside = False
    fails = []
    if r.get("raised"):
        if inside:
            fails.append(("C17/tam/exception", f"threshold_at_metric raised {r['raised']}: {r.get('msg')} on an object with "
                          f"{distinct} distinct scores"))
        return fails
    if not inside:
        return fails
    if "pts" not in r or "by_callable" not in r or "direct" not in r:
        return [("C17/tam/exception", f"callable metric path failed: {r.get('callable_raised') or r.get('direct_raised')}")]
    pts = [F(v) for v in r["pts"]]
    yv = [F(v) for v in r["y"]]
    if any(v is None for v in yv):
        return fails  # NaN metric: outside
    # the evaluation points
    if pts_arg is None:
        if pts != allv:
            fails.append(("C17/tam/points", f"points=None: metric evaluated at {[float(p) for p in pts]}, not at all scores sorted"))
    elif isinstance(pts_arg, list):
        if pts != [F(v) for v in pts_arg]:
            fails.append(("C17/tam/points", "user-supplied points were not used as given"))
    else:
        k = pts_arg
        tol = 4 * EPS * max(abs(allv[0]), abs(allv[-1]), 1)
        want = [allv[0] + i * (allv[-1] - allv[0]) / (k - 1) for i in range(k)]
        if len(pts) != k or pts[0] != allv[0] or pts[-1] != allv[-1] or any(abs(a - b) > tol for a, b in zip(pts, want)):
            fails.append(("C17/tam/points", f"points={k}: metric evaluated at {[float(p) for p in pts]}, not at {k} evenly spaced "
                          f"points spanning [{float(allv[0])}, {float(allv[-1])}]"))
    if not r.get("same_object") or not r.get("y_again_equal"):
        fails.append(("C17/tam/metric", "the metric was not evaluated on the object itself at the chosen points"))
    # exactly the inversion of those samples
    if r["by_name"] != r["by_callable"]:
        fails.append(("C17/tam/name", f"metric by name and the same metric as a callable differ: {r['by_name']} vs {r['by_callable']}"))
    if "by_tiny" in r and r["by_tiny"] != r["by_callable"]:
        fails.append(("C17/tam/scale", f"metric and target both scaled by 2^-550 (exact): result {r['by_tiny']['sols']} differs from "
                      f"the unscaled {r['by_callable']['sols']}"))
    if r["by_name"] != r["direct"]:
        fails.append(("C17/tam/inversion", f"result {r['by_name']['sols']} ({'bare array' if r['by_name'].get('bare') else 'list of arrays'}) "
                      f"differs from invert_pl_function applied to the metric at the chosen points {r['direct']['sols']} "
                      f"({'bare array' if r['direct'].get('bare') else 'list of arrays'}); target passed as {case.get('tform')}"))
    if _wf_curve(pts, yv) and pts:
        fails += _check_inversion(pts, yv, ts, case["scalar"], r["by_name"], "C17/tam")
    return fails


# ------------------------------------------------------------------ correspondence
def _tg(case):
    ts = [F(t) for t in case["t"]]
    return f"(TScalar {cq.q(ts[0])})" if case["scalar"] else f"(TArray {cq.qlist(ts)})"


def _inverted(r):
    if r.get("raised") == "ValueError":
        return "ErrValue"
    if any(not isinstance(F(v), Fraction) for s in r["sols"] for v in s):
        return "ErrValue"  # NaN / inf in the output: never what the model returns on finite input
    if r["bare"]:
        return f"(Ok (Bare {cq.qlist(F(v) for v in r['sols'][0])}))"
    return "(Ok (ListOf [" + "; ".join(cq.qlist(F(v) for v in s) for s in r["sols"]) + "]))"


def _tolz(x, y, ts):
    """0 when every float operation on every crossing segment is exact, else 2^-40 * scale"""
    for t in ts:
        segs = []
        for j in range(len(y) - 1):
            if (y[j] <= t < y[j + 1]) or (y[j] >= t > y[j + 1]):
                segs.append((j, None))
        if not _float_exact(x, y, t, segs):
            return Fraction(1, 2 ** 40) * max([abs(v) for v in x] + [Fraction(1)])
    return Fraction(0)


def _fallback_inexact(y, ts):
    """some target without crossing for which the float |y - t| rounds: the float argmin may then tie where the
       exact one does not (stream F: left to the oracle, which grants the rounding)"""
    for t in ts:
        if any((y[j] <= t < y[j + 1]) or (y[j] >= t > y[j + 1]) for j in range(len(y) - 1)):
            continue
        if not all(_is_double(v - t) for v in y):
            return True
    return False


def _float_inv_term(case, r):
    """binary64 model (Model/FloatInvertPL.v): every returned point bit for bit, any finite input"""
    import math
    if r.get("raised") or r.get("bare") is None or not case["x"]:
        return None
    xs, ys, ts = [fl(v) for v in case["x"]], [fl(v) for v in case["y"]], [fl(v) for v in case["t"]]
    sols = r["sols"]
    if len(sols) != len(ts) or any(v is None or not math.isfinite(fl(v)) for sol in sols for v in sol):
        return None
    pairs = "; ".join(f"({cq.f64(t)}, {cq.f64list(fl(v) for v in sol)})" for t, sol in zip(ts, sols))
    return f"(FloatInvertPL.finvert_check {cq.f64list(xs)} {cq.f64list(ys)} [{pairs}])"


def coq_term(case, res):
    if "ok" not in res:
        return "false"
    r = res["ok"]
    ts = [F(t) for t in case["t"]]
    if case["kind"] == "inv" and len(case["x"]) > 2000:
        return _float_inv_term(case, r)   # long curves: the binary64 model (primitive floats) and the oracle's exact scan
    if case["kind"] == "inv":
        x = [F(v) for v in case["x"]]
        y = [F(v) for v in case["y"]]
        if r.get("bare") is None and not r.get("raised"):
            return "false"
        if _fallback_inexact(y, ts):
            return _float_inv_term(case, r)     # the float argmin may tie where the exact one does not: binary64 model only
        tol = _tolz(x, y, ts) if _wf_curve(x, y) else Fraction(1, 2 ** 40)
        ft = _float_inv_term(case, r)
        return (f"(inverted_agree {cq.q(tol)} (invert_pl {cq.qlist(x)} {cq.qlist(y)} {_tg(case)}) {_inverted(r)})"
                + (f" && {ft}" if ft else ""))
    s = (f"(mk_scores {cq.qlist(F(v) for v in case['pos'])} {cq.qlist(F(v) for v in case['neg'])} "
         f"{cq.z(case['ep'])} {cq.z(case['en'])} {cq.label(case['sc'])} {cq.label(case['ec'])} false)")
    p = case["points"]
    parg = "PNone" if p is None else (f"(PInt {cq.z(p)})" if isinstance(p, int) else f"(PArr {cq.qlist(F(v) for v in p)})")
    m = {"tpr": "NTpr", "fnr": "NFnr", "tnr": "NTnr", "fpr": "NFpr", "topr": "NTopr", "tonr": "NTonr"}[case["metric"]]
    if r.get("raised"):
        result = "ErrValue"
    elif "by_name" in r and r["by_name"].get("bare") is not None:
        result = _inverted(r["by_name"])
    else:
        return "false"
    pts = [F(v) for v in r.get("pts", [])]
    yv = [F(v) for v in r.get("y", [])]
    if any(v is None for v in yv):
        return None  # NaN metric values: outside the model
    if _fallback_inexact(yv, ts):
        return None
    scale = max([abs(v) for v in pts] + [Fraction(1)])
    tolp = Fraction(0) if not isinstance(p, int) else Fraction(1, 2 ** 48) * scale
    tolz = _tolz(pts, yv, ts) if _wf_curve(pts, yv) else Fraction(1, 2 ** 40) * scale
    return (f"(tam_check {m} {s} {_tg(case)} {parg} {cq.qlist(pts)} {cq.qlist(yv)} {result} {cq.q(tolp)} {cq.q(tolz)})")


# ------------------------------------------------------------------ bookkeeping
def _sols(case, res):
    if "ok" not in res:
        return None
    r = res["ok"]
    if case["kind"] == "tam":
        r = r.get("by_name") or {}
    return r.get("sols")


def nontrivial(case, res):
    sols = _sols(case, res)
    if not sols:
        return False
    if case["kind"] == "inv":
        x, y = [F(v) for v in case["x"]], [F(v) for v in case["y"]]
    else:
        r = res["ok"]
        x, y = [F(v) for v in r.get("pts", [])], [F(v) for v in r.get("y", [])]
    if len(x) < 2 or any(v is None for v in y):
        return False
    for t, s in zip(case["t"], sols):
        if len(s) >= 2 or not _scan(x, y, F(t)):
            return True
    return False


def distribution(cases, results):
    d = {"n": len(cases), "inv": 0, "tam": 0, "scalar_target": 0, "empty_target_array": 0, "targets": 0, "fallback_targets": 0,
         "multi_solution_targets": 0, "touch_targets": 0, "plateau_targets": 0, "dup_x": 0, "raised_ValueError": 0,
         "float_exact_cases": 0, "points_mode": {"none": 0, "int": 0, "arr": 0}, "metric": {}, "style": {}, "errors": 0}
    for c, res in zip(cases, results):
        d[c["kind"]] += 1
        d["style"][c["style"]] = d["style"].get(c["style"], 0) + 1
        d["scalar_target"] += bool(c["scalar"])
        d["empty_target_array"] += (not c["scalar"] and not c["t"])
        if "ok" not in res:
            d["errors"] += 1
            continue
        r = res["ok"]
        if r.get("raised"):
            d["raised_ValueError"] += 1
        if c["kind"] == "tam":
            p = c["points"]
            d["points_mode"]["none" if p is None else ("int" if isinstance(p, int) else "arr")] += 1
            d["metric"][c["metric"]] = d["metric"].get(c["metric"], 0) + 1
            x, y = [F(v) for v in r.get("pts", [])], [F(v) for v in r.get("y", [])]
        else:
            x, y = [F(v) for v in c["x"]], [F(v) for v in c["y"]]
        if any(v is None for v in y) or len(x) != len(y):
            continue
        d["dup_x"] += any(x[i] == x[i + 1] for i in range(len(x) - 1))
        ts = [F(t) for t in c["t"]]
        if _wf_curve(x, y) and _tolz(x, y, ts) == 0:
            d["float_exact_cases"] += 1
        for t in ts:
            d["targets"] += 1
            segs = _scan(x, y, t)
            d["fallback_targets"] += not segs
            d["multi_solution_targets"] += len(segs) >= 2
            d["touch_targets"] += any(y[j] == t for j, _ in segs)
            d["plateau_targets"] += any(y[j] == t and y[j + 1] == t for j in range(len(y) - 1))
    return d
