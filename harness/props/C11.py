"""C11 — bootstrap samples are well-formed resamples of their source (Scores.bootstrap_sample).

Correspondence: np.random.{binomial,poisson,choice,normal} are wrapped *inside the driver process*; every call
is recorded as (call, parameters, result) in program order.  The recorded history is replayed through the Coq
model (Model/Sampling.v), which must consume it completely, make the same calls with the same parameters
(p / lam within 1e-12: they come from a float division) and return the same sample."""
import math
from fractions import Fraction

from harness import coqio as cq
from harness.common import CONFIGS, F, enc, fl

ID = "C11"
PROPS_FILE = "Props/C11.v"
COQ_IMPORTS = "From SA Require Import Model.Sampling."
GEN_AVAILABLE = set()
RULE = ("seeded bootstrap samples of structured Scores (integer scores; tiny inputs 1-3 per class that trigger each "
        "at-least-one correction, sizes 2-9, sizes 95-130 and imbalanced 100-400 around the dynamic / Poisson "
        "switches at 100; easy counts 0 and >0; empty classes for replacement), methods replacement / single_pass / "
        "dynamic / proportion / callable / invalid, stratification None / by_label / other, smoothing on/off; a case "
        "is non-trivial when the recorded RNG history triggers a correction branch or draws >= 2 distinct indices "
        "in some class")
TRUSTED = [
    "NumPy RNG contract (hypothesis draw_ok of the theorems): binomial(n,p) in [0,n], =0 if p=0, =n if p=1; vector "
    "draws have the requested length, multiplicities >= 0, choice indices in range (also the scalar choice(n) of the "
    "single-pass at-least-one correction), distinct when replace=False",
    "means used by C11_mean_parameters (draw_mean): E binomial(n,p)=n p, E poisson(lam)=lam, E #times an index is "
    "drawn by choice(n,size)=size/n; the expectation over NumPy's actual Mersenne-Twister stream is NOT proved",
    "np.random.choice(a, size, replace=False) == a[np.random.choice(len(a), size, replace=False)] (same stream; "
    "re-checked by the recorder on every call)",
    "np.sort = sorted permutation (isort); np.repeat(np.arange(n), ks) modelled by repeat_idx; a[idx] by take_idx",
    "harness RNG recorder (monkeypatch of np.random.* in the driver process only)",
]
ASSUMPTIONS = [
    "finite scores; smoothing: noise values / bandwidth are not modelled (class membership is stated for smoothing off; "
    "with smoothing only sizes, flags, order are compared)",
    "'strata preserved exactly' is read for replacement sampling; single-pass sampling fixes the easy strata exactly and "
    "the hard strata only in expectation (n p = 1), as the single-pass design implies",
    "non-replacement methods: both classes have at least one score (property quantifier)",
]


def _ties():
    from harness.translate import sampling_tr
    return [{"name": "scores._sampling_method", "translate": sampling_tr.translate_sampling_method,
             "gen_file": "Gen_sampling_method.v", "tie_file": "Tie_sampling_method.v"}]


TIES = _ties()


TOL = "(Qmake 1 1000000000000)"
METHODS = {"replacement": "MReplacement", "single_pass": "MSinglePass", "dynamic": "MDynamic",
           "proportion": "MProportion", "bogus": "MOtherString", "invalid": "MInvalid",
           "callable_id": "(MCallable (fun s => s))", "callable_swap": "(MCallable swap)"}
STRATS = {None: "SNone", "by_label": "SByLabel", "by_group": "SByGroup", "weird": "SOther"}
ERRS = {"ValueError": "EValueError", "ZeroDivisionError": "EZeroDivision"}


# ------------------------------------------------------------------ generators
def _ints(rng, n, lo=-20, hi=20, distinct=False):
    if distinct:
        return [Fraction(v) for v in rng.sample(range(lo * 4, hi * 4), n)]
    return [Fraction(rng.randint(lo, hi)) for _ in range(n)]


def _case(rng, npos, nneg, method, strat, ep=0, en=0, smoothing=False, ratio=None, distinct=False, cfg=None, **extra):
    sc, ec = cfg or rng.choice(CONFIGS)
    pos = _ints(rng, npos, distinct=distinct)
    neg = [x + 7 for x in _ints(rng, nneg, distinct=distinct)]
    c = {"pos": [enc(x) for x in pos], "neg": [enc(x) for x in neg], "ep": ep, "en": en, "sc": sc, "ec": ec,
         "method": method, "strat": strat, "smoothing": smoothing, "ratio": None if ratio is None else enc(ratio),
         "seed": rng.randint(0, 2**31 - 1)}
    c.update(extra)
    return c


def _safe_ratio(rng, ns):
    """a ratio in (0,1] such that float(ratio)*n truncates like the exact product for every n in ns"""
    for _ in range(50):
        if rng.random() < 0.7:
            r = Fraction(rng.randint(1, 16), 16)
        else:
            r = Fraction(float(rng.choice([0.1, 0.3, 0.37, 0.6, 0.9, 0.05])))
        if all(int(float(r) * n) == math.floor(r * n) for n in ns):
            return r
    return Fraction(1, 2)


def gen_cases(rng, tier):
    mult = {"quick": 1, "thorough": 12, "search": 4}[tier]
    cases = []
    easy = lambda: rng.choice([0, 0, 1, 2, 5])
    strat3 = lambda: rng.choice([None, "by_label", "by_group"])
    # A. tiny inputs: every at-least-one correction (non-stratified replacement / single pass)
    for _ in range(90 * mult):
        npos, nneg = rng.choice([1, 1, 2, 3]), rng.choice([1, 1, 2, 3])
        cases.append(_case(rng, npos, nneg, rng.choice(["replacement", "single_pass", "dynamic"]),
                           rng.choice([None, None, "by_label"]), ep=rng.choice([0, 1, 2, 4]), en=rng.choice([0, 1, 3])))
    # B. small/medium, all methods
    for _ in range(70 * mult):
        m = rng.choice(["replacement", "single_pass", "dynamic", "replacement", "single_pass"])
        cases.append(_case(rng, rng.randint(2, 9), rng.randint(2, 9), m, strat3(), ep=easy(), en=easy(),
                           distinct=rng.random() < 0.5))
    # C. around the switches at 100 (dynamic -> single pass; binomial -> poisson multiplicities)
    for _ in range(8 * mult):
        npos, nneg = rng.randint(95, 106), rng.randint(95, 106)
        cases.append(_case(rng, npos, nneg, rng.choice(["dynamic", "single_pass", "replacement"]), strat3(),
                           ep=rng.choice([0, 0, 3]), en=rng.choice([0, 0, 7])))
    for _ in range(4 * mult):
        cases.append(_case(rng, rng.randint(100, 130), rng.randint(100, 130), "dynamic", strat3(),
                           ep=rng.choice([0, 4]), en=rng.choice([0, 2])))
    for _ in range(3 * mult):   # imbalanced: expected class sizes differ by far more than 8 sigma
        a, b = rng.choice([(100, 400), (380, 110), (120, 330)])
        cases.append(_case(rng, a, b, rng.choice(["dynamic", "single_pass"]), "by_label"))
    # D. smoothing
    for _ in range(8 * mult):
        cases.append(_case(rng, rng.randint(3, 8), rng.randint(3, 8), rng.choice(["replacement", "dynamic"]),
                           rng.choice([None, "by_label"]), ep=easy(), en=easy(), smoothing=True, distinct=True))
    cases.append(_case(rng, 101, 102, "dynamic", None, smoothing=True, distinct=True))
    for _ in range(3):
        cases.append(_case(rng, rng.randint(2, 5), rng.randint(2, 5), "single_pass", strat3(), smoothing=True))
    # E. proportion (distinct scores so that a repeated index is visible)
    for _ in range(30 * mult):
        npos, nneg, ep, en = rng.randint(1, 12), rng.randint(1, 12), easy(), easy()
        r = _safe_ratio(rng, [npos, nneg, ep, en])
        cases.append(_case(rng, npos, nneg, "proportion", strat3(), ep=ep, en=en, ratio=r, distinct=True))
    # larger classes, small fractions: several indices drawn per class, so a repeated index (sampling WITH replacement,
    # or a top-up that forgets what is already selected) has room to happen
    for _ in range(8 * mult):
        npos, nneg = rng.choice([(40, 60), (100, 150), (80, 40), (150, 120)])
        r = rng.choice([Fraction(1, 4), Fraction(1, 5), Fraction(1, 8), Fraction(1, 10)])
        if not all(int(float(r) * n) == math.floor(r * n) for n in (npos, nneg)):
            r = Fraction(1, 4)
        cases.append(_case(rng, npos, nneg, "proportion", rng.choice([None, "by_label"]), ratio=r, distinct=True))
    # ... and scores with many ties inside each class (values from a small pool): the sample still has the requested size
    for _ in range(12 * mult):
        npos, nneg = rng.randint(4, 12), rng.randint(4, 12)
        c = _case(rng, npos, nneg, "proportion", strat3(), ratio=rng.choice([Fraction(1, 2), Fraction(1, 4), Fraction(3, 4)]))
        pool = [Fraction(rng.randint(-3, 3)) for _ in range(3)]
        c["pos"] = [enc(rng.choice(pool)) for _ in range(npos)]
        c["neg"] = [enc(rng.choice(pool) + 1) for _ in range(nneg)]
        cases.append(c)
    cases.append(_case(rng, 4, 4, "proportion", None, ratio=None))
    cases.append(_case(rng, 5, 3, "proportion", None, ratio=Fraction(1), distinct=True))
    # F. callable / unsupported
    for m in ("callable_id", "callable_swap", "bogus", "invalid"):
        for _ in range(2):
            cases.append(_case(rng, rng.randint(1, 5), rng.randint(1, 5), m, strat3(), ep=easy(), en=easy()))
    # G. empty classes
    for _ in range(10 * mult):
        npos, nneg = rng.choice([(0, 3), (2, 0), (0, 0), (0, 1), (4, 0)])
        cases.append(_case(rng, npos, nneg, rng.choice(["replacement", "dynamic", "replacement", "single_pass"]),
                           rng.choice([None, "by_label"]), ep=rng.choice([0, 2]), en=rng.choice([0, 1])))
    # H. many seeds on one object: mean class size / mean multiplicity per source index
    nstat = {"quick": 4, "thorough": 24, "search": 12}[tier]
    for j in range(nstat):
        npos, nneg = rng.choice([(2, 6), (7, 3), (5, 5), (3, 9), (12, 4)])
        m = ["single_pass", "replacement"][j % 4 == 3]
        cases.append(_case(rng, npos, nneg, m, "by_label", ep=rng.choice([0, 2]), en=rng.choice([0, 1]),
                           distinct=True, stat=400 if tier == "quick" else 2500))
    if tier != "quick":
        cases.append(_case(rng, 110, 140, "dynamic", "by_label", distinct=False, stat=300))
    # H2. not stratified, many easy samples, few hard ones (the at-least-one corrections practically never trigger):
    # expected sizes of the hard strata over many seeds
    for j in range({"quick": 2, "thorough": 8, "search": 4}[tier]):
        h_p, h_n = rng.choice([(12, 20), (20, 15), (16, 30)])
        cases.append(_case(rng, h_p, h_n, ["replacement", "single_pass"][j % 2], None, ep=rng.choice([40, 60, 100]) * h_p,
                           en=rng.choice([30, 50]) * h_n, distinct=True, stat=6000 if tier == "quick" else 12000))
    # H3. tiny classes under explicit single-pass sampling, thousands of seeds: both classes draw all-zero multiplicities in
    # the same sample about once in 256 (2 + 2) — every sample must still hold a scored positive and a scored negative
    for j in range({"quick": 2, "thorough": 6, "search": 4}[tier]):
        cases.append(_case(rng, 2, rng.choice([2, 2, 3]), "single_pass", [None, "by_label"][j % 2], ep=rng.choice([0, 1]),
                           en=rng.choice([0, 2]), distinct=True, stat=4000 if tier == "quick" else 12000, tiny=True))
    # H4. another object of the same total size (other class split) was resampled with an equal dynamic config just before:
    # the resolution of "dynamic" depends on each object's own class sizes
    for j in range({"quick": 4, "thorough": 16, "search": 8}[tier]):
        a_, b_ = [((290, 10), (150, 150)), ((150, 150), (290, 10)), ((95, 205), (150, 150)), ((120, 180), (60, 240))][j % 4]
        cases.append(_case(rng, a_[0], a_[1], "dynamic", [None, "by_label"][j % 2], ep=rng.choice([0, 5]), en=rng.choice([0, 3]),
                           warm_other=list(b_)))
    # H5. proportion sampling called again and again with nothing else touching the generator in between (as the loop of
    # bootstrap_metric does): every score is reached (a fixed score is missed by all 120 samples with probability 2^-120)
    # and the samples are not all the same
    for j in range({"quick": 3, "thorough": 10, "search": 5}[tier]):
        cases.append(_case(rng, rng.randint(4, 10), rng.randint(4, 12), "proportion", [None, "by_label"][j % 2], ratio=Fraction(1, 2),
                           distinct=True, repeat=120))
    # I. call histories: the object has produced samples under other configurations before the observed call
    def other_cfg(big):
        return {"method": rng.choice(["dynamic", "replacement"] + (["single_pass"] if big else [])),
                "strat": rng.choice([None, "by_label"]), "smoothing": False}
    for j in range({"quick": 6, "thorough": 30, "search": 12}[tier]):
        big = j % 2 == 0
        n1, n2 = (rng.randint(100, 112), rng.randint(100, 112)) if big else (rng.randint(3, 9), rng.randint(3, 9))
        sm = j % 3 != 2
        c = _case(rng, n1, n2, "dynamic" if big else rng.choice(["dynamic", "replacement"]), rng.choice([None, "by_label"]),
                  ep=rng.choice([0, 0, 3]), en=rng.choice([0, 2]), smoothing=sm, distinct=sm)
        c["warm"] = [other_cfg(big) for _ in range(rng.choice([1, 1, 2]))]
        if j % 3 == 2:   # and the other way round: smoothed first, plain afterwards
            c["warm"] = [{"method": "dynamic", "strat": None, "smoothing": True}]
        cases.append(c)
    return cases


# ------------------------------------------------------------------ implementation side
class _Recorder:
    """wraps np.random.{binomial,poisson,choice,normal} and records (call, parameters, result) in order"""

    def __init__(self, np):
        self.np = np
        self.hist = []
        self.saved = {}

    def __enter__(self):
        np = self.np
        rnd = np.random
        for name in ("binomial", "poisson", "choice", "normal"):
            self.saved[name] = getattr(rnd, name)
        orig = dict(self.saved)
        hist = self.hist

        def binomial(n, p, size=None):
            out = orig["binomial"](n, p, size)
            if size is None:
                hist.append(["binom", int(n), enc(float(p)), int(out)])
            else:
                hist.append(["binomvec", int(size), int(n), enc(float(p)), [int(v) for v in out]])
            return out

        def poisson(lam=1.0, size=None):
            out = orig["poisson"](lam, size)
            hist.append(["poissonvec", int(size), enc(float(lam)), [int(v) for v in np.atleast_1d(out)]])
            return out

        def choice(a, size=None, replace=True, p=None):
            if p is not None:
                raise RuntimeError("recorder: choice with p is not expected")
            if np.ndim(a) == 0 and size is None:     # scalar draw: np.random.choice(n)
                out = orig["choice"](a, None, replace)
                hist.append(["choice1", int(a), int(out)])
                return out
            if np.ndim(a) == 0:
                out = orig["choice"](a, size, replace)
                hist.append(["choice" if replace else "choice_norepl", int(a), int(np.size(out)) if size is None else int(size),
                             [int(v) for v in np.atleast_1d(out)]])
                return out
            # choice over an array: record the chosen positions (same stream as choice(len(a), ...))
            arr = np.asarray(a)
            state = rnd.get_state()
            direct = orig["choice"](arr, size, replace)
            rnd.set_state(state)
            idx = orig["choice"](len(arr), size, replace)
            if not np.array_equal(direct, arr[idx]):
                raise RuntimeError("recorder: choice(a) != a[choice(len(a))]")
            hist.append(["choice" if replace else "choice_norepl", int(len(arr)), int(np.size(idx)) if size is None else int(size),
                         [int(v) for v in np.atleast_1d(idx)]])
            return direct

        def normal(loc=0.0, scale=1.0, size=None):
            out = orig["normal"](loc, scale, size)
            n = int(np.prod(size)) if size is not None else 1
            hist.append(["normal", n, [enc(float(v)) for v in np.atleast_1d(out)]])
            return out

        rnd.binomial, rnd.poisson, rnd.choice, rnd.normal = binomial, poisson, choice, normal
        return self

    def __exit__(self, *exc):
        for name, f in self.saved.items():
            setattr(self.np.random, name, f)
        return False


def _config(case):
    from score_analysis import BootstrapConfig

    m = case["method"]
    if m == "callable_id":
        method = lambda s: s
    elif m == "callable_swap":
        method = lambda s: s.swap()
    elif m == "invalid":
        method = 5
    else:
        method = m
    ratio = None if case["ratio"] is None else fl(case["ratio"])
    return BootstrapConfig(sampling_method=method, stratified_sampling=case["strat"], smoothing=case["smoothing"],
                           ratio=ratio)


def _thresholds(case):
    vals = sorted(set(F(x) for x in case["pos"] + case["neg"]))
    if not vals:
        return [Fraction(0)]
    pick = vals[:: max(1, len(vals) // 6)][:7]
    return sorted(set(pick + [v + Fraction(1, 2) for v in pick[:3]] + [vals[0] - 1, vals[-1] + 1]))


def run_impl(case):
    import numpy as np
    from score_analysis import Scores

    pos = np.array([fl(x) for x in case["pos"]], dtype=float)
    neg = np.array([fl(x) for x in case["neg"]], dtype=float)
    s = Scores(pos, neg, nb_easy_pos=case["ep"], nb_easy_neg=case["en"], score_class=case["sc"], equal_class=case["ec"])
    cfg = _config(case)
    if case.get("repeat"):
        np.random.seed(case["seed"] % 2**32)
        cp, cn, seen = {float(v): 0 for v in pos}, {float(v): 0 for v in neg}, set()
        for j in range(case["repeat"]):
            b = s.bootstrap_sample(cfg)
            for v in b.pos:
                cp[float(v)] = cp.get(float(v), 0) + 1
            for v in b.neg:
                cn[float(v)] = cn.get(float(v), 0) + 1
            seen.add((tuple(float(v) for v in b.pos), tuple(float(v) for v in b.neg)))
        return {"repeat": case["repeat"], "never_pos": [v for v, c_ in cp.items() if c_ == 0], "never_neg": [v for v, c_ in cn.items() if c_ == 0],
                "distinct": len(seen)}
    if case.get("stat"):
        k = case["stat"]
        tot_p = tot_n = tot_ep = tot_en = 0
        empty = []       # seeds at which the sample lacks a scored sample of a class the source has
        mp = {float(v): 0 for v in pos}
        mn = {float(v): 0 for v in neg}
        for j in range(k):
            np.random.seed((case["seed"] + j) % 2**32)
            b = s.bootstrap_sample(cfg)
            tot_p += len(b.pos)
            tot_n += len(b.neg)
            if (len(pos) and not len(b.pos)) or (len(neg) and not len(b.neg)):
                empty.append([(case["seed"] + j) % 2**32, len(b.pos), len(b.neg)])
            tot_ep += int(b.nb_easy_pos)
            tot_en += int(b.nb_easy_neg)
            if len(mp) == len(pos) and len(mn) == len(neg):
                for v in b.pos:
                    mp[float(v)] += 1
                for v in b.neg:
                    mn[float(v)] += 1
        return {"empty": empty[:5], "stat": k, "sum_pos": tot_p, "sum_neg": tot_n, "sum_ep": tot_ep, "sum_en": tot_en,
                "mult_pos": list(mp.values()) if len(mp) == len(pos) else None,
                "mult_neg": list(mn.values()) if len(mn) == len(neg) else None}
    if case.get("warm_other"):
        wp, wn = case["warm_other"]
        other = Scores(np.arange(wp, dtype=float), np.arange(wn, dtype=float) + 0.5, score_class=case["sc"], equal_class=case["ec"])
        np.random.seed((case["seed"] + 29) % 2**32)
        other.bootstrap_sample(_config(case))
    for w in case.get("warm") or []:
        # earlier calls on the same object (their samples are discarded): the observed call has to behave as on a fresh object
        np.random.seed((case["seed"] + 17) % 2**32)
        s.bootstrap_sample(_config({**w, "ratio": None}))
    np.random.seed(case["seed"])
    raised = None
    with _Recorder(np) as rec:
        try:
            b = s.bootstrap_sample(cfg)
        except (ValueError, ZeroDivisionError, TypeError, IndexError, KeyError) as ex:
            raised = type(ex).__name__
            msg = str(ex)[:200]
    if raised:
        return {"raised": raised, "msg": msg, "hist": rec.hist}
    thr = _thresholds(case)
    cm = b.cm(np.array([float(t) for t in thr])).matrix
    return {"hist": rec.hist, "pos": [enc(float(v)) for v in b.pos], "neg": [enc(float(v)) for v in b.neg],
            "ep": int(b.nb_easy_pos), "en": int(b.nb_easy_neg), "sc": b.score_class.value, "ec": b.equal_class.value,
            "thr": [enc(t) for t in thr], "cm": [[int(v) for v in m.reshape(-1)] for m in cm]}


# ------------------------------------------------------------------ model side
def draw_term(d):
    k = d[0]
    if k == "binom":
        return f"(DBinom {cq.z(d[1])} {cq.q(F(d[2]))} {cq.z(d[3])})"
    if k == "binomvec":
        return f"(DBinomVec {cq.z(d[1])} {cq.z(d[2])} {cq.q(F(d[3]))} {cq.zlist(d[4])})"
    if k == "poissonvec":
        return f"(DPoissonVec {cq.z(d[1])} {cq.q(F(d[2]))} {cq.zlist(d[3])})"
    if k == "choice":
        return f"(DChoice {cq.z(d[1])} {cq.z(d[2])} {cq.zlist(d[3])})"
    if k == "choice_norepl":
        return f"(DChoiceNoRepl {cq.z(d[1])} {cq.z(d[2])} {cq.zlist(d[3])})"
    if k == "choice1":
        return f"(DChoice1 {cq.z(d[1])} {cq.z(d[2])})"
    if k == "normal":
        return f"(DNormal {cq.z(d[1])} {cq.qlist(F(v) for v in d[2])})"
    raise ValueError(k)


def hist_term(hist):
    return "[" + "; ".join(draw_term(d) for d in hist) + "]"


def scores_term(case):
    return (f"(mk_scores {cq.qlist(F(x) for x in case['pos'])} {cq.qlist(F(x) for x in case['neg'])} "
            f"{cq.z(case['ep'])} {cq.z(case['en'])} {cq.label(case['sc'])} {cq.label(case['ec'])} false)")


def config_term(case):
    ratio = "None" if case["ratio"] is None else f"(Some {cq.q(F(case['ratio']))})"
    return f"(mkConfig {METHODS[case['method']]} {STRATS[case['strat']]} {cq.b(case['smoothing'])} {ratio})"


def coq_term(case, res):
    if case.get("stat") or case.get("repeat"):
        return None
    if "ok" not in res:
        return "false"
    r = res["ok"]
    run = f"(bootstrap_sample {config_term(case)} {scores_term(case)} {hist_term(r['hist'])})"
    if "raised" in r:
        if r["raised"] not in ERRS:
            return "false"
        return f"(error_agrees {run} {ERRS[r['raised']]})"
    exp = (f"(mkScores {cq.qlist(F(x) for x in r['pos'])} {cq.qlist(F(x) for x in r['neg'])} {cq.z(r['ep'])} "
           f"{cq.z(r['en'])} {cq.label(r['sc'])} {cq.label(r['ec'])})")
    return f"(sample_agrees {TOL} {cq.b(case['smoothing'])} {run} {hist_term(r['hist'])} {exp})"


# ------------------------------------------------------------------ the property on the implementation's output
def resolved_method(case):
    m = case["method"]
    if m != "dynamic":
        return m
    if len(case["pos"]) < 100 or len(case["neg"]) < 100 or case["smoothing"]:
        return "replacement"
    return "single_pass"


def expected_error(case):
    """configurations for which the library documents / raises an error (outside the property)"""
    m = resolved_method(case)
    if m in ("bogus", "invalid"):
        return True
    if m == "single_pass" and (case["smoothing"] or not case["pos"] or not case["neg"]):
        return True
    if m == "proportion" and (case["ratio"] is None or not case["pos"] or not case["neg"]):
        return True
    return False


def _dec(sc, ec, x, t):
    if sc == "pos":
        return x >= t if ec == "pos" else x > t
    return x <= t if ec == "pos" else x < t


def _multiset_le(a, b):
    from collections import Counter

    ca, cb = Counter(a), Counter(b)
    return all(ca[x] <= cb[x] for x in ca)


def _stat_oracle(case, r):
    """expected class / stratum sizes under by_label (no correction can trigger): mean over k seeded samples.
       Decisive only beyond 8 sigma (false-alarm probability < 1e-14); the per-index z-scores are support only."""
    fails = []
    k = r["stat"]
    m = resolved_method(case)
    for seed_, np_, nn_ in r.get("empty") or []:
        fails.append(("C11/stat-empty-class", f"{m}, stratified_sampling={case['strat']}: under np.random.seed({seed_}) the sample has "
                      f"{np_} scored positives and {nn_} scored negatives; the source has {len(case['pos'])} and {len(case['neg'])}"))
    if case.get("tiny"):
        return fails      # sizes this small sit inside the at-least-one correction: no expected-size claim
    if case["strat"] is None:
        # hard stratum size: Binomial(N, h/N)-like (variance <= h) and, for single pass, the sum of the multiplicities
        # (variance <= h again); the corrections add less than exp(-h) per sample
        for cls, key, ekey, esrc in (("pos", "sum_pos", "sum_ep", case["ep"]), ("neg", "sum_neg", "sum_en", case["en"])):
            n = len(case[cls])
            mean = r[key] / k
            sd = math.sqrt(2 * n / k)
            if abs(mean - n) > 8 * sd + 0.05:
                fails.append(("C11/expected-size", f"{m}, not stratified, over {k} seeds: mean hard {cls} stratum {mean:.3f}, source has "
                              f"{n} (sd of the mean <= {sd:.3f}): expected stratum size is not the source's"))
            emean = r[ekey] / k
            esd = math.sqrt(2 * max(esrc, 1) / k)
            if abs(emean - esrc) > 8 * esd + 0.05:
                fails.append(("C11/expected-size", f"{m}, not stratified, over {k} seeds: mean easy {cls} stratum {emean:.3f}, source has "
                              f"{esrc} (sd of the mean <= {esd:.3f})"))
        return fails
    for cls, key, ekey, esrc in (("pos", "sum_pos", "sum_ep", case["ep"]), ("neg", "sum_neg", "sum_en", case["en"])):
        n = len(case[cls])
        mean = Fraction(r[key], k)
        if m == "replacement":
            if mean != n:
                fails.append(("C11/expected-size", f"replacement by_label: mean hard {cls} size {float(mean)} != {n}"))
        else:
            sd = math.sqrt(n / k)
            if abs(float(mean) - n) > 8 * sd + 0.1:   # 0.1: the at-least-one correction adds P(all zero) <= 1/16
                fails.append(("C11/expected-size", f"{m} by_label over {k} seeds: mean hard {cls} size {float(mean):.3f}, "
                              f"source has {n} (sd of the mean {sd:.3f}): expected stratum size is not the source's"))
        if Fraction(r[ekey], k) != esrc:
            fails.append(("C11/strata", f"by_label: mean easy {cls} count {r[ekey] / k} != {esrc}"))
    return fails


def stat_support(case, r):
    """max |z| of the per-index mean multiplicity (expected 1)"""
    k = r["stat"]
    zs = []
    for cls, key in (("pos", "mult_pos"), ("neg", "mult_neg")):
        n = len(case[cls])
        if r.get(key) and n > 1:
            sd = math.sqrt((1 - 1 / n) / k) if resolved_method(case) == "replacement" or n < 100 else math.sqrt(1 / k)
            zs += [abs(c / k - 1) / sd for c in r[key]]
    return max(zs) if zs else None


def oracle(case, res):
    if "ok" not in res:
        return [("C11/exception", f"bootstrap_sample raised {res.get('err')}: {res.get('msg')}")]
    r = res["ok"]
    if case.get("repeat"):
        fails = []
        if r["never_pos"] or r["never_neg"]:
            fails.append(("C11/reachable/consecutive-calls", f"proportion sampling (ratio 1/2) called {r['repeat']} times in a row after one "
                          f"np.random.seed({case['seed'] % 2**32}): the scores {r['never_pos'][:4]} (pos) / {r['never_neg'][:4]} (neg) are never "
                          f"drawn; {r['distinct']} distinct samples"))
        elif r["distinct"] < 2:
            fails.append(("C11/reachable/consecutive-calls", f"{r['repeat']} consecutive proportion samples are all the same sample"))
        return fails
    if case.get("stat"):
        return _stat_oracle(case, r)
    m = resolved_method(case)
    if "raised" in r:
        if expected_error(case):
            return []
        return [("C11/exception", f"bootstrap_sample raised {r['raised']}: {r.get('msg')}")]
    if m.startswith("callable") or expected_error(case):
        return []
    fails = []
    pos, neg = [F(x) for x in case["pos"]], [F(x) for x in case["neg"]]
    bpos, bneg = [F(x) for x in r["pos"]], [F(x) for x in r["neg"]]
    if (r["sc"], r["ec"]) != (case["sc"], case["ec"]):
        fails.append(("C11/flags", f"sample has ({r['sc']},{r['ec']}), source ({case['sc']},{case['ec']})"))
    if not case["smoothing"]:
        if not set(bpos) <= set(pos) or not set(bneg) <= set(neg):
            fails.append(("C11/membership", "sample contains a score that is not in the source's same class"))
    if any(a > b for a, b in zip(bpos, bpos[1:])) or any(a > b for a, b in zip(bneg, bneg[1:])):
        fails.append(("C11/order", f"sample arrays are not sorted ({m})"))
    for j, t in enumerate(r["thr"]):
        tv = F(t)
        tp = sum(_dec(r["sc"], r["ec"], x, tv) for x in bpos)
        fp = sum(_dec(r["sc"], r["ec"], x, tv) for x in bneg)
        want = [tp + r["ep"], len(bpos) - tp, fp, len(bneg) - fp + r["en"]]
        if r["cm"][j] != want:
            fails.append(("C11/order", f"cm of the sample at {t} is {r['cm'][j]}, direct counting gives {want} ({m})"))
            break
    if r["ep"] < 0 or r["en"] < 0:
        fails.append(("C11/strata", f"negative easy count ({r['ep']},{r['en']})"))
    for cls, src, smp in (("positive", pos, bpos), ("negative", neg, bneg)):
        if src and not smp:
            # (was an open known finding until repo commit c42c88e; now an ordinary violation)
            kind = "C11/single-pass-empty-class" if m == "single_pass" else "C11/empty-class"
            fails.append((kind, f"source has {len(src)} scored {cls}s, the {m} sample has none"))
    total_src = len(pos) + len(neg) + case["ep"] + case["en"]
    total = len(bpos) + len(bneg) + r["ep"] + r["en"]
    if m == "replacement":
        if total != total_src:
            fails.append(("C11/total", f"replacement sample has {total} samples, source {total_src}"))
        if case["strat"] == "by_label" and (len(bpos), len(bneg), r["ep"], r["en"]) != (len(pos), len(neg), case["ep"], case["en"]):
            fails.append(("C11/strata", f"by_label strata {(len(bpos), len(bneg), r['ep'], r['en'])} != source "
                          f"{(len(pos), len(neg), case['ep'], case['en'])}"))
    if m == "single_pass" and case["strat"] == "by_label":
        if (r["ep"], r["en"]) != (case["ep"], case["en"]):
            fails.append(("C11/strata", f"single-pass by_label easy strata {(r['ep'], r['en'])} != {(case['ep'], case['en'])}"))
        for cls, src, smp in (("pos", pos, bpos), ("neg", neg, bneg)):
            n = len(src)   # hard stratum: sum of n draws with mean 1 and variance <= 1
            if abs(len(smp) - n) > 8 * math.sqrt(n) + 1e-9:
                fails.append(("C11/expected-size", f"single-pass by_label: {cls} sample size {len(smp)} is more than 8 sigma "
                              f"from the source's {n}: expected stratum size is not the source's"))
    if m == "proportion":
        rt = F(case["ratio"])
        want = (max(math.floor(rt * len(pos)), 1), max(math.floor(rt * len(neg)), 1),
                math.floor(rt * case["ep"]), math.floor(rt * case["en"]))
        got = (len(bpos), len(bneg), r["ep"], r["en"])
        if got != want:
            fails.append(("C11/proportion-size", f"proportion {case['ratio']}: sizes {got}, requested fraction gives {want}"))
        if not _multiset_le(bpos, pos) or not _multiset_le(bneg, neg):
            fails.append(("C11/proportion-repeat", "proportion sample repeats a source sample (not drawn without replacement)"))
    return fails


def branches(case, res):
    """which branches of _sample_indices the recorded history went through"""
    out = set()
    r = res.get("ok") or {}
    h = r.get("hist") or []
    kinds = [d[0] for d in h]
    if kinds[:3] == ["binom", "binom", "binom"]:
        n_all = h[0][1]
        k = h[0][3]
        nb_all_pos = len(case["pos"]) + case["ep"]
        nb_all_neg = len(case["neg"]) + case["en"]
        if k == 0 and nb_all_pos > 0:
            out.add("corr-pos")
            k = 1
        if n_all - k == 0 and nb_all_neg > 0:
            out.add("corr-neg")
        if h[1][1] - h[1][3] == 0 and case["pos"]:
            out.add("corr-hard-pos")
        if h[2][1] - h[2][3] == 0 and case["neg"]:
            out.add("corr-hard-neg")
    for kd in kinds:
        out.add("draw-" + kd)
    if "raised" in r:
        out.add("raise-" + r["raised"])
    return out


def nontrivial(case, res):
    if "ok" not in res:
        return False
    r = res["ok"]
    if case.get("stat") or case.get("repeat"):
        return True
    if any(b.startswith("corr-") for b in branches(case, res)):
        return True
    for d in r.get("hist", []):
        if d[0] in ("choice", "choice_norepl") and len(set(d[3])) >= 2:
            return True
        if d[0] in ("binomvec", "poissonvec") and sum(1 for v in d[-1] if v > 0) >= 2:
            return True
        if d[0] == "choice1":
            return True
    return False


def distribution(cases, results):
    d = {"n": len(cases), "method": {}, "resolved": {}, "strat": {}, "branches": {}, "smoothing": 0, "easy>0": 0,
         "empty_class": 0, "big(>=100 both)": 0, "raised": {}, "stat_cases": 0, "stat_max_abs_z(support only)": None}
    zmax = None
    for c, r in zip(cases, results):
        d["method"][c["method"]] = d["method"].get(c["method"], 0) + 1
        rm = resolved_method(c)
        d["resolved"][rm] = d["resolved"].get(rm, 0) + 1
        d["strat"][str(c["strat"])] = d["strat"].get(str(c["strat"]), 0) + 1
        d["smoothing"] += bool(c["smoothing"])
        d["easy>0"] += bool(c["ep"] or c["en"])
        d["empty_class"] += (not c["pos"] or not c["neg"])
        d["big(>=100 both)"] += (len(c["pos"]) >= 100 and len(c["neg"]) >= 100)
        if "ok" in r:
            for b in branches(c, r):
                d["branches"][b] = d["branches"].get(b, 0) + 1
            if "raised" in r["ok"]:
                d["raised"][r["ok"]["raised"]] = d["raised"].get(r["ok"]["raised"], 0) + 1
            if c.get("stat"):
                d["stat_cases"] += 1
                zz = stat_support(c, r["ok"])
                if zz is not None:
                    zmax = zz if zmax is None else max(zmax, zz)
        else:
            d["raised"][r.get("err", "?")] = d["raised"].get(r.get("err", "?"), 0) + 1
    d["stat_max_abs_z(support only)"] = None if zmax is None else round(zmax, 2)
    return d
