#!/bin/sh
# false-alarm sweep: every claimed check, quick tier, several seeds, on the unchanged tree; evidence goes to a scratch dir
cd "$(dirname "$0")/.."
SEEDS="${SEEDS:-11 12 13 14}"
PROPS="${PROPS:-$(python3 -c "import json;print(' '.join(c['property_id'] for c in json.load(open('MANIFEST.json'))['checks']))" 2>/dev/null)}"
OUT="${OUT:-/tmp/sweep.log}"
: > "$OUT"
for seed in $SEEDS; do
  for p in $PROPS; do
    echo "$seed $p"
  done
done | xargs -P "${JOBS:-3}" -n 2 sh -c 'r=$(VERIF_SEED=$0 VERIF_EVIDENCE_DIR=/tmp/ev_sweep ./check $1 2>&1 | grep -E "^OK|VIOLATION|violating|broken" | head -3 | cut -c1-300 | tr "\n" " "); echo "seed=$0 $1: $r" >> '"$OUT"
grep -c "OK property" "$OUT"; grep -v "OK property" "$OUT" | head -20
