"""Shared case generation / implementation driver for threshold setting (C02, C03, C08, C09)."""
from fractions import Fraction

from harness import coqio as cq
from harness.common import CONFIGS, F, enc, fl, score_list, pick_dtype

METRICS = ["tpr", "fnr", "tnr", "fpr", "topr", "tonr"]
ALIASES = {"tpr": "tar", "fnr": "frr", "tnr": "trr", "fpr": "far", "topr": "acceptance_rate", "tonr": "rejection_rate"}
COQ_METRIC = {"tpr": "MTpr", "fnr": "MFnr", "tnr": "MTnr", "fpr": "MFpr", "topr": "MTopr", "tonr": "MTonr"}
COQ_METHOD = {"linear": "Linear", "lower": "Lower", "higher": "Higher"}


def relevant(case):
    m = case["metric"]
    if m in ("tpr", "fnr"):
        return [F(x) for x in case["pos"]], case["ep"]
    if m in ("tnr", "fpr"):
        return [F(x) for x in case["neg"]], case["en"]
    return [F(x) for x in case["pos"] + case["neg"]], case["ep"] + case["en"]


def gen_scores(rng, exact, metric, style=None, allow_empty=False):
    """returns (pos, neg, ep, en); exact => every float op of the threshold path for `metric` is exact
    (relevant class size N and N + easy are powers of two, small dyadic scores)"""
    if exact:
        style = style or rng.choice(["ties", "dyadic", "ints", "distinct"])
        if metric in ("tpr", "fnr"):
            npos = rng.choice([1, 2, 2, 4, 4, 8]); ep = rng.choice([0, 0, npos, 3 * npos])
            nneg = rng.randint(1, 6); en = rng.choice([0, 0, 1, 4])
        elif metric in ("tnr", "fpr"):
            nneg = rng.choice([1, 2, 2, 4, 4, 8]); en = rng.choice([0, 0, nneg, 3 * nneg])
            npos = rng.randint(1, 6); ep = rng.choice([0, 0, 1, 4])
        else:
            tot = rng.choice([2, 4, 4, 8, 8])
            npos = rng.randint(1, tot - 1); nneg = tot - npos
            easy = rng.choice([0, 0, tot, 3 * tot])
            ep = rng.randint(0, easy); en = easy - ep
    else:
        npos = rng.choice([1, 2, 3, 5, 6, 7, 9])
        nneg = rng.choice([1, 2, 3, 4, 5, 7, 10])
        style = style or rng.choice(["ties", "dyadic", "ints", "distinct", "float", "wide-int"])
        ep = rng.choice([0, 0, 1, 2, 5, 30])
        en = rng.choice([0, 0, 1, 3, 7])
        if allow_empty and metric in ("topr", "tonr") and rng.random() < 0.15:
            # one class has no scored sample but easy ones: they still count in the all-sample denominator
            if rng.random() < 0.5:
                nneg, en = 0, rng.choice([2, 3, 7, 12])
            else:
                npos, ep = 0, rng.choice([2, 3, 7, 12])
    pos = score_list(rng, npos, style)
    neg = score_list(rng, nneg, style)
    return pos, neg, ep, en


def gen_targets(rng, n_rel, exact, k=5):
    ts = []
    for _ in range(k):
        r = rng.random()
        if r < 0.2:
            ts.append(Fraction(rng.choice([0, 1])))
        elif r < 0.3:
            ts.append(Fraction(rng.choice([-1, -3, 5, 9]), 4))
        elif r < 0.6:
            ts.append(Fraction(rng.randint(0, 64), 64))
        elif r < 0.8 or exact:
            ts.append(Fraction(rng.randint(0, 2 * max(n_rel, 1)), 2 * max(n_rel, 1)) if not exact
                      else Fraction(rng.randint(0, 16), 16))
        else:
            ts.append(Fraction(rng.random()))
    return ts


def thr_case(rng, exact, metric=None, method=None):
    metric = metric or rng.choice(METRICS)
    pos, neg, ep, en = gen_scores(rng, exact, metric, allow_empty=True)
    mixed = None
    if not exact and pos and neg and rng.random() < 0.12:
        # integer-typed scores in one class (the longer one), fractional floats in the other, whose values reach beyond
        mixed = rng.choice(["pos", "neg"])
        n_int = max(len(pos), len(neg)) + rng.randint(0, 3)
        ints = [Fraction(rng.randint(0, 6)) for _ in range(n_int)]
        fr = [Fraction(rng.choice([-1, -3, 13, 15, 5, 7]), 2) for _ in range(rng.randint(1, min(len(pos), len(neg))))]
        pos, neg = (ints, fr) if mixed == "pos" else (fr, ints)
    sc, ec = rng.choice(CONFIGS)
    case = {"pos": [enc(x) for x in pos], "neg": [enc(x) for x in neg], "ep": ep, "en": en, "sc": sc, "ec": ec,
            "metric": metric, "method": method or rng.choice(["linear", "linear", "lower", "higher"]), "exact": exact}
    rel, _ = relevant(case)
    case["targets"] = [enc(t) for t in gen_targets(rng, len(rel), exact)]
    case["dtype"] = pick_dtype(rng, pos + neg)
    if rng.random() < 0.15 and pos and neg:
        # the two classes arrive in different dtypes (e.g. integer-typed scores of one class, floats of the other)
        case["dtype_pos"], case["dtype_neg"] = pick_dtype(rng, pos), pick_dtype(rng, neg)
    if mixed:
        case["dtype"] = "float64"
        case["dtype_pos"], case["dtype_neg"] = ("int64", "float64") if mixed == "pos" else ("float64", "int64")
    # history: other threshold queries made on the same object before the one under test
    case["warmup"] = rng.sample(METRICS, rng.choice([0, 0, 1, 2]))
    # ... and bootstrap samples drawn from the object before (the source object stays what it was)
    case["warm_sample"] = rng.choice([None, None, None, "proportion", "replacement", "single_pass"])
    return case


def make_scores(case):
    import numpy as np
    from score_analysis import Scores

    dt = np.dtype(case.get("dtype", "float64"))     # the values are exactly representable in the chosen dtype
    pos = np.array([fl(x) for x in case["pos"]], dtype=float).astype(np.dtype(case.get("dtype_pos", dt)))
    neg = np.array([fl(x) for x in case["neg"]], dtype=float).astype(np.dtype(case.get("dtype_neg", dt)))
    # the arrays are handed over in a shuffled order (the constructor sorts them; is_sorted is left at its default)
    rs_ = np.random.RandomState(len(pos) * 131 + len(neg))
    pos, neg = pos[rs_.permutation(len(pos))], neg[rs_.permutation(len(neg))]
    if case.get("cls") == "fraud":
        # the same data as the subclass FraudScores (scores in [0,1], equal_class fixed to 'pos'): every threshold-setting
        # property of Scores is inherited
        import warnings
        from score_analysis.applications.doc_fraud import FraudScores
        assert case["ec"] == "pos"
        with warnings.catch_warnings():
            warnings.simplefilter("ignore")
            return FraudScores(genuines=pos, frauds=neg, nb_easy_genuines=case["ep"], nb_easy_frauds=case["en"],
                               score_class="genuine" if case["sc"] == "pos" else "fraud")
    s = Scores(pos, neg, nb_easy_pos=case["ep"], nb_easy_neg=case["en"], score_class=case["sc"], equal_class=case["ec"])
    if case.get("via") == "smoothed" and len(pos) and len(neg):
        # the object under test is DERIVED from the one above: a smoothed replacement bootstrap sample (kernel noise on
        # the drawn scores).  It is a Scores object like any other; the property is checked against its own arrays.
        from score_analysis import BootstrapConfig
        np.random.seed(case.get("via_seed", 0))
        s = s.bootstrap_sample(BootstrapConfig(sampling_method="replacement", smoothing=True))
    return s


def actual_case(case, s):
    """the case describing the object s actually handed to the functions (differs from `case` for derived objects)"""
    if not case.get("via"):
        return case
    return dict(case, pos=[enc(float(x)) for x in sorted(float(v) for v in s.pos)], neg=[enc(float(x)) for x in sorted(float(v) for v in s.neg)],
                ep=int(s.nb_easy_pos), en=int(s.nb_easy_neg), exact=False)


def effective(case, res):
    """oracle / model side of actual_case: the arrays the driver recorded for a derived object"""
    if case.get("via") and isinstance(res, dict) and "ok" in res and res["ok"].get("actual"):
        a = res["ok"]["actual"]
        return dict(case, pos=a["pos"], neg=a["neg"], ep=a["ep"], en=a["en"], exact=False)
    return case


def tau(case):
    """64 ulp of the largest relevant |score| (uniform float rule, DESIGN 3.3)"""
    import numpy as np

    rel, _ = relevant(case)
    big = max([abs(float(x)) for x in rel] + [1e-300])
    return Fraction(float(np.spacing(big))) * 64


def run_thresholds(case):
    """thresholds for all targets with the case's method + the metric at T, T - tau, T + tau"""
    import numpy as np

    s = make_scores(case)
    case = actual_case(case, s)
    targets = np.array([fl(t) for t in case["targets"]], dtype=float)
    if case.get("warm_ci") and len(s.pos) and len(s.neg):
        # history: a default (BCa) bootstrap interval of a ratio of error rates was computed on the object before; in some
        # bootstrap samples the denominator is 0 and the replicate is infinite
        import warnings
        from score_analysis import BootstrapConfig
        t0 = float(np.median(np.concatenate([s.pos, s.neg])))
        np.random.seed(case.get("warm_ci"))
        with warnings.catch_warnings():
            warnings.simplefilter("ignore")
            try:
                s.bootstrap_ci(lambda o: np.float64(o.fnr(t0)) / np.float64(o.fpr(t0)), config=BootstrapConfig(nb_samples=30))
            except Exception:
                pass
    if case.get("warm_sample") and len(s.pos) and len(s.neg):
        from score_analysis import BootstrapConfig
        np.random.seed(len(s.pos) * 101 + len(s.neg))
        for _ in range(2):
            try:
                s.bootstrap_sample(BootstrapConfig(sampling_method=case["warm_sample"], ratio=0.5 if case["warm_sample"] == "proportion" else None))
            except ValueError:
                pass
    for w in case.get("warmup", []):
        try:
            getattr(s, "threshold_at_" + w)(np.array([0.0, 0.4, 1.0]))
        except ValueError:
            pass    # empty class for that metric
    thr_ret = getattr(s, "threshold_at_" + case["metric"])(targets, method=case["method"])
    thr = np.array(thr_ret, dtype=float, copy=True)
    # the returned array belongs to the caller: later threshold calls (same target shape, other metric / method) leave it alone
    aliased = False
    if isinstance(thr_ret, np.ndarray) and thr_ret.size:
        for other_m in ("fnr", "tpr", "tonr"):
            try:
                getattr(s, "threshold_at_" + other_m)(np.clip(targets * 0.5 + 0.2, 0, 1), method="lower")
            except ValueError:
                pass
        aliased = not bool(np.array_equal(np.asarray(thr_ret, dtype=float), thr, equal_nan=True))
    t = float(tau(case))
    met = getattr(s, case["metric"])
    out = {"result_overwritten": aliased, "thr": [enc(float(x)) for x in thr],
           "at": [enc(float(x)) for x in np.atleast_1d(met(thr))],
           "below": [enc(float(x)) for x in np.atleast_1d(met(thr - t))],
           "above": [enc(float(x)) for x in np.atleast_1d(met(thr + t))]}
    if case.get("via"):
        out["actual"] = {"pos": case["pos"], "neg": case["neg"], "ep": case["ep"], "en": case["en"]}
    return s, targets, thr, out


def scores_term(case):
    return (f"(mk_scores {cq.qlist(F(x) for x in case['pos'])} {cq.qlist(F(x) for x in case['neg'])} "
            f"{cq.z(case['ep'])} {cq.z(case['en'])} {cq.label(case['sc'])} {cq.label(case['ec'])} false)")


def thr_agree_term(case, thr_list, tol, fuzzy, method=None):
    """Coq bool: the model's thresholds agree with thr_list (encoded exact numbers)"""
    s = scores_term(case)
    m = COQ_METHOD[method or case["method"]]
    mt = COQ_METRIC[case["metric"]]
    parts = []
    for r, t in zip(case["targets"], thr_list):
        if fuzzy:
            parts.append(f"thr_agree_f {cq.q(tol)} (Qmake 1 17592186044416) {mt} s {m} {cq.q(F(r))} {cq.q(F(t))}")
        else:
            parts.append(f"thr_agree 0 {mt} s {m} {cq.q(F(r))} {cq.q(F(t))}")
    return f"(let s := {s} in " + " && ".join(parts) + ")"


F_METRIC = {"tpr": "FTpr", "fnr": "FFnr", "tnr": "FTnr", "fpr": "FFpr", "topr": "FTopr", "tonr": "FTonr"}
F_METHOD = {"linear": "FLinear", "lower": "FLower", "higher": "FHigher"}


def float_agree_term(case, thr_list, method=None, raised=False):
    """Coq bool over Model/FloatThreshold.v (binary64, operation by operation): the float model returns exactly the
    doubles the implementation returned, for every target; works on every input (no exactness condition)"""
    import math
    pos = sorted(fl(x) for x in case["pos"])
    neg = sorted(fl(x) for x in case["neg"])
    lab = {"pos": "FloatThreshold.FPos", "neg": "FloatThreshold.FNeg"}
    s = (f"(FloatThreshold.mkF {cq.f64list(pos)} {cq.f64list(neg)} {cq.z(case['ep'])} {cq.z(case['en'])} "
         f"{lab[case['sc']]} {lab[case['ec']]})")
    pairs = []
    for r, t in zip(case["targets"], thr_list if not raised else [None] * len(case["targets"])):
        exp = "None" if raised else f"(Some {cq.f64(fl(t))})"
        if not raised and not math.isfinite(fl(t)):
            return None
        pairs.append(f"({cq.f64(fl(r))}, {exp})")
    return (f"(FloatThreshold.fthr_check FloatThreshold.{F_METRIC[case['metric']]} {s} "
            f"FloatThreshold.{F_METHOD[method or case['method']]} [{'; '.join(pairs)}])")


def achievable(case):
    """(lowest, highest, one_sample) of the metric as exact fractions"""
    npos, nneg, ep, en = len(case["pos"]), len(case["neg"]), case["ep"], case["en"]
    m = case["metric"]
    allp, alln = npos + ep, nneg + en
    tot = allp + alln
    if m == "tpr":
        return Fraction(ep, allp), Fraction(1), Fraction(1, allp)
    if m == "fnr":
        return Fraction(0), Fraction(npos, allp), Fraction(1, allp)
    if m == "tnr":
        return Fraction(en, alln), Fraction(1), Fraction(1, alln)
    if m == "fpr":
        return Fraction(0), Fraction(nneg, alln), Fraction(1, alln)
    if m == "topr":
        return Fraction(ep, tot), Fraction(ep + npos + nneg, tot), Fraction(1, tot)
    return Fraction(en, tot), Fraction(en + npos + nneg, tot), Fraction(1, tot)


def mixed_dtype_probe(pos, neg, ep, en, sc, ec, targets):
    """One class held as whole numbers in an integer array, the other as fractional floats: every threshold function gives
    what it gives when both classes are float64 arrays with the same values (the identity map must not matter).
    Returns a description of the first difference, or None."""
    import numpy as np
    from score_analysis import Scores

    if not (len(pos) and len(neg)):
        return None
    for int_side in ("neg", "pos"):
        ints = np.round(neg if int_side == "neg" else pos)
        if np.max(np.abs(ints)) > 2 ** 40:
            continue
        fr = (pos if int_side == "neg" else neg) + 0.25
        kw = dict(nb_easy_pos=ep, nb_easy_neg=en, score_class=sc, equal_class=ec)
        a = Scores(fr, ints.astype(float), **kw) if int_side == "neg" else Scores(ints.astype(float), fr, **kw)
        b = Scores(fr, ints.astype(np.int64), **kw) if int_side == "neg" else Scores(ints.astype(np.int64), fr, **kw)
        for m in METRICS:
            for method in ("linear", "lower", "higher"):
                ta = np.asarray(getattr(a, "threshold_at_" + m)(targets, method=method), dtype=float)
                tb = np.asarray(getattr(b, "threshold_at_" + m)(targets, method=method), dtype=float)
                if not np.array_equal(ta, tb, equal_nan=True):
                    return (f"threshold_at_{m}({[float(t) for t in targets][:4]}, method={method}) with the {int_side} class held as int64 "
                            f"{[int(v) for v in ints][:6]} and the other class {[float(v) for v in fr][:6]}: {tb.tolist()[:4]}, with both classes "
                            f"as float64: {ta.tolist()[:4]}")
    return None

