"""Printing Python values as Coq terms and running coqc on generated case files."""
import os
import re
import subprocess
from concurrent.futures import ThreadPoolExecutor
from fractions import Fraction

VERIF = os.path.dirname(os.path.dirname(os.path.abspath(__file__)))
THEORIES = os.path.join(VERIF, "coq", "theories")
COQ_TIMEOUT = 600


def z(i):
    i = int(i)
    return f"({i})%Z"


def nat(i):
    return f"{int(i)}%nat"


def q(x):
    """Exact rational literal."""
    f = Fraction(x)
    return f"(Qmake ({f.numerator}) {f.denominator})"


def f64(x):
    """binary64 literal of Coq's primitive floats (hexadecimal, exact); x is a finite Python float"""
    h = float(x).hex()
    return f"({h})%float"


def f64list(xs):
    return "[" + "; ".join(f64(x) for x in xs) + "]"


def qlist(xs):
    return "[" + "; ".join(q(x) for x in xs) + "]"


def zlist(xs):
    return "[" + "; ".join(z(x) for x in xs) + "]"


def blist(xs):
    return "[" + "; ".join(b(x) for x in xs) + "]"


def b(x):
    return "true" if x else "false"


def label(s):
    return {"pos": "Pos", "neg": "Neg"}[s]


def ext(t):
    """threshold: 'inf', '-inf' or a rational"""
    if t == "inf":
        return "PosInf"
    if t == "-inf":
        return "NegInf"
    return f"(Fin {q(t)})"


def rate(r):
    return "None" if r is None else f"(Some {q(r)})"


def frac(s):
    """decode a JSON-encoded exact number: 'n/d' string, int, or None/inf markers"""
    if s is None or s in ("inf", "-inf", "nan"):
        return s
    return Fraction(s)


def enc(x):
    """encode a float/int/Fraction exactly for JSON"""
    import math

    if x is None:
        return None
    if isinstance(x, float):
        if math.isnan(x):
            return None
        if math.isinf(x):
            return "inf" if x > 0 else "-inf"
    f = Fraction(x)
    return f"{f.numerator}/{f.denominator}"


def coqc(vfile, rundir, extra_q=(), timeout=COQ_TIMEOUT):
    """compile one file; returns (ok, stdout+stderr)"""
    cmd = ["timeout", str(timeout), "coqc", "-q", "-Q", THEORIES, "SA"]
    for d, name in extra_q:
        cmd += ["-Q", d, name]
    cmd += [vfile]
    p = subprocess.run(cmd, cwd=rundir, capture_output=True, text=True)
    return p.returncode == 0, p.stdout + p.stderr


CASE_HEADER = """{imports}
Open Scope Q_scope.
Definition checks : list (nat * bool) := [
{body}
].
Definition bad := map fst (filter (fun p => negb (snd p)) checks).
Eval vm_compute in (length checks, bad).
"""


def run_case_files(terms, imports, rundir, extra_q=(), chunk=None, jobs=16, tag="cases"):
    """terms: list of (index, coq_bool_term). Returns (n_checked, bad_indices, errors)."""
    if chunk is None:
        chunk = min(250, max(20, -(-len(terms) // jobs)))
    files = []
    for k in range(0, len(terms), chunk):
        part = terms[k : k + chunk]
        body = ";\n".join(f"  ({nat(i)}, {t})" for i, t in part)
        name = os.path.join(rundir, f"{tag}_{k // chunk}.v")
        with open(name, "w") as fh:
            fh.write(CASE_HEADER.format(imports=imports, body=body))
        files.append((name, [i for i, _ in part]))

    def one(item):
        name, idxs = item
        ok, out = coqc(name, rundir, extra_q)
        if not ok and not out.strip():
            # coqc died without any diagnostic (killed by a signal under memory/CPU pressure): not a verdict, run it again once
            ok, out = coqc(name, rundir, extra_q)
        return name, idxs, ok, out

    n = 0
    bad = []
    errors = []
    with ThreadPoolExecutor(max_workers=jobs) as ex:
        for name, idxs, ok, out in ex.map(one, files):
            if not ok:
                errors.append((name, out[-2000:], idxs))
                continue
            flat = " ".join(out.split())
            m = re.search(r"= \((\d+)(?:%nat)?, \[(.*?)\]\)", flat)
            if not m:
                errors.append((name, "unparsable coqc output: " + flat[-500:], idxs))
                continue
            n += int(m.group(1))
            if m.group(2).strip():
                bad += [int(x.replace("%nat", "")) for x in m.group(2).split(";")]
    return n, bad, errors
