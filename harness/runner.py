"""Generic check runner: ./check Cxx [--tier quick|thorough] [--replay FILE]   (DESIGN.md section 5)

Per run: (1) make sure the Coq development is built, recompile Props/Cxx.v and read its
Print Assumptions output; (2) tie T: regenerate Gallina fragments from the current /repo source and
compile the tie lemmas; (3) tie C: run the implementation and the model (vm_compute in coqc) on
the same cases; (4) evaluate the executable property oracle on the implementation's outputs;
(5) decide; (6) write evidence/Cxx.json."""
import fnmatch
import hashlib
import importlib
import json
import os
import random
import re
import shutil
import subprocess
import sys
import time

from . import coqio

VERIF = coqio.VERIF
REPO = os.environ.get("VERIF_REPO", "/repo")
COQDIR = os.path.join(VERIF, "coq")
BUILD = os.path.join(VERIF, "build")
PY = "/venv/bin/python"

FORBIDDEN = re.compile(r"\b(Admitted|admit|Axiom|Axioms|Parameter|Parameters|Conjecture|Admit Obligations|"
                       r"Unset Guard Checking|bypass_check|Unset Universe Checking|Unset Positivity Checking)\b")


def sh(cmd, **kw):
    return subprocess.run(cmd, capture_output=True, text=True, **kw)


# ---------------------------------------------------------------- build
def ensure_build(log):
    """Full .vo build of coq/theories under a lock. Returns (ok, output)."""
    os.makedirs(BUILD, exist_ok=True)
    lock = os.path.join(BUILD, ".lock")
    cmd = f"cd {COQDIR} && flock {lock} sh -c './mkproject.sh >/dev/null && timeout 3000 make -j16 2>&1 | tail -40'"
    p = sh(["sh", "-c", cmd])
    out = p.stdout + p.stderr
    ok = p.returncode == 0 and "Error" not in out
    log.append(("build", ok, out[-3000:]))
    return ok, out


def scan_forbidden():
    hits = []
    for root, _, files in os.walk(os.path.join(COQDIR)):
        for f in files:
            if f.endswith(".v"):
                path = os.path.join(root, f)
                for i, line in enumerate(open(path), 1):
                    code = re.sub(r"\(\*.*?\*\)", "", line)
                    if FORBIDDEN.search(code):
                        hits.append(f"{path}:{i}: {line.strip()}")
    return hits


def compile_props(prop, mod, rundir):
    """Recompile Props/Cxx.v; returns (ok, theorems, assumptions-by-theorem, raw output)."""
    src = os.path.join(COQDIR, "theories", mod.PROPS_FILE)
    text = open(src).read()
    theorems = re.findall(r"^\s*(?:Theorem|Example)\s+(\w+)", text, re.M)
    printed = re.findall(r"^\s*Print Assumptions\s+(\w+)\s*\.", text, re.M)
    local = os.path.join(rundir, os.path.basename(src))
    shutil.copy(src, local)
    ok, out = coqio.coqc(local, rundir)
    blocks = []
    cur = None
    for line in out.splitlines():
        if line.startswith("Closed under the global context"):
            blocks.append("Closed under the global context")
            cur = None
        elif line.startswith("Axioms:"):
            blocks.append("Axioms:")
            cur = len(blocks) - 1
        elif cur is not None and line.strip() and not line.startswith("File "):
            blocks[cur] += " " + line.strip()
    assumptions = {}
    for name, blk in zip(printed, blocks):
        assumptions[name] = blk
    return ok, theorems, assumptions, out


def run_ties(mod, rundir):
    """Translate the current source, compile Gen_*.v and the tie lemma files.
       Returns list of dicts {name, lemmas, ok, detail}."""
    res = []
    for tie in getattr(mod, "TIES", []):
        name = tie["name"]
        entry = {"name": name, "lemmas": [], "ok": False, "detail": ""}
        tie_src = os.path.join(COQDIR, "ties", tie["tie_file"])
        entry["lemmas"] = re.findall(r"^\s*(?:Lemma|Theorem)\s+(\w+)", open(tie_src).read(), re.M)
        try:
            gen_text = tie["translate"](REPO)
        except Exception as ex:  # fail-closed translator
            entry["detail"] = f"translator rejected the current source: {type(ex).__name__}: {ex}"
            res.append(entry)
            continue
        gen_path = os.path.join(rundir, tie["gen_file"])
        with open(gen_path, "w") as fh:
            fh.write(gen_text)
        ok, out = coqio.coqc(gen_path, rundir, extra_q=[(rundir, "Gen")])
        entry["gen_ok"] = ok
        entry["gen_module"] = tie["gen_file"][:-2]
        if not ok:
            entry["detail"] = "generated file does not compile: " + out[-800:]
            res.append(entry)
            continue
        local = os.path.join(rundir, tie["tie_file"])
        shutil.copy(tie_src, local)
        ok, out = coqio.coqc(local, rundir, extra_q=[(rundir, "Gen")])
        entry["ok"] = ok
        if not ok:
            m = re.search(r"line (\d+)", out)
            failing = None
            if m:
                ln = int(m.group(1))
                for i, line in enumerate(open(tie_src), 1):
                    mm = re.match(r"\s*(?:Lemma|Theorem)\s+(\w+)", line)
                    if mm and i <= ln:
                        failing = mm.group(1)
            entry["failing"] = failing
            entry["detail"] = f"tie lemma {failing} no longer checks: " + out[-600:]
        res.append(entry)
    return res


# ---------------------------------------------------------------- implementation
def run_impl(prop, cases, rundir, tag="cases"):
    cpath = os.path.join(rundir, f"{tag}.json")
    rpath = os.path.join(rundir, f"{tag}.results.json")
    json.dump(cases, open(cpath, "w"))
    env = dict(os.environ, PYTHONPATH=f"{REPO}:{VERIF}", PYTHONDONTWRITEBYTECODE="1", PYTHONHASHSEED="0",
               VERIF_REPO=REPO, OMP_NUM_THREADS="1", OPENBLAS_NUM_THREADS="1")
    budget = 60 + 21 * min(len(cases), 100)
    try:
        p = subprocess.run([PY, os.path.join(VERIF, "harness", "impl_driver.py"), prop, cpath, rpath],
                           env=env, capture_output=True, text=True, timeout=budget, cwd=VERIF)
    except subprocess.TimeoutExpired:
        return None, "implementation driver exceeded its time budget"
    if not os.path.exists(rpath):
        return None, "implementation driver crashed: " + (p.stderr or p.stdout)[-1500:]
    data = json.load(open(rpath))
    if "import_error" in data:
        return None, "cannot import score_analysis: " + data["import_error"]
    for f, lines in data.get("executed", {}).items():
        EXECUTED.setdefault(f, set()).update(lines)
    return data["results"], None


EXECUTED = {}


def anchored_coverage(prop):
    """Statement coverage of the functions the property is anchored in (properties.jsonl line ranges are
    re-located by function name through the first commit of /repo, so that edits do not shift them)."""
    import ast
    try:
        rec = next(json.loads(l) for l in open(os.path.join(VERIF, "properties.jsonl")) if json.loads(l)["id"] == prop)
        root = sh(["git", "-C", REPO, "rev-list", "--max-parents=0", "HEAD"]).stdout.split()[0]
    except Exception:
        return {}
    out = {}
    for mech in rec["anchors"]["mechanism"]:
        where = mech.get("where", "")
        if ":" not in where:
            continue
        path, ranges = where.split(":", 1)
        old = sh(["git", "-C", REPO, "show", f"{root}:{path}"]).stdout
        try:
            new = open(os.path.join(REPO, path)).read()
            told, tnew = ast.parse(old), ast.parse(new)
        except Exception:
            continue
        spans = []
        for r in ranges.split(","):
            a, _, b = r.partition("-")
            spans.append((int(a), int(b or a)))

        def funcs(tree):
            res = {}
            def visit(node, prefix):
                for ch in ast.iter_child_nodes(node):
                    if isinstance(ch, (ast.FunctionDef, ast.ClassDef)):
                        name = prefix + ch.name
                        if isinstance(ch, ast.FunctionDef):
                            res[name] = ch
                        visit(ch, name + ".")
            visit(tree, "")
            return res
        fo, fnw = funcs(told), funcs(tnew)
        names = [n for n, f in fo.items() if any(f.lineno <= hi and lo <= f.end_lineno for lo, hi in spans)
                 and not any(m != n and m.startswith(n + ".") and any(fo[m].lineno <= hi and lo <= fo[m].end_lineno for lo, hi in spans) and False for m in fo)]
        rel = path.split("score_analysis/", 1)[-1]
        done = EXECUTED.get(rel, set())
        for n in names:
            f = fnw.get(n)
            if f is None:
                out[f"{path}:{n}"] = {"missing_in_current_source": True}
                continue
            stmts = set()
            for node in ast.walk(f):
                if isinstance(node, ast.stmt) and node is not f and not isinstance(node, (ast.FunctionDef, ast.ClassDef)):
                    if isinstance(node, ast.Expr) and isinstance(node.value, ast.Constant) and isinstance(node.value.value, str):
                        continue
                    stmts.add(node.lineno)
            hit = stmts & done
            out[f"{path}:{n}"] = {"statements": len(stmts), "executed": len(hit), "not_executed_lines": sorted(stmts - hit)[:25]}
    return out


# ---------------------------------------------------------------- known findings
def load_known(prop):
    path = os.path.join(VERIF, "known_findings.json")
    if not os.path.exists(path):
        return []
    return [f for f in json.load(open(path))["findings"] if f["property"] == prop]


def match_known(kind, known):
    for f in known:
        if f.get("status") == "open" and any(fnmatch.fnmatch(kind, pat) for pat in f.get("kinds", [])):
            return f
    return None


def write_replay(prop, payload):
    os.makedirs(os.path.join(VERIF, "replays"), exist_ok=True)
    blob = json.dumps(payload, sort_keys=True, default=str)
    h = hashlib.sha1(blob.encode()).hexdigest()[:12]
    path = os.path.join(VERIF, "replays", f"{prop}-{h}.json")
    with open(path, "w") as fh:
        json.dump(payload, fh, indent=1, default=str)
    return path


def case_key(case):
    return hashlib.sha1(json.dumps(case, sort_keys=True, default=str).encode()).hexdigest()


# ---------------------------------------------------------------- main
def replay(prop, mod, path):
    payload = json.load(open(path))
    case = payload.get("case")
    if case is None:
        print(f"replay file names a broken obligation, not an input: {payload.get('broken')}")
        return 1
    rundir = os.path.join(BUILD, "run", f"{prop}.replay.{os.getpid()}")
    os.makedirs(rundir, exist_ok=True)
    results, err = run_impl(prop, [case], rundir)
    if err:
        print(err)
        return 1
    fails = mod.oracle(case, results[0])
    print("case:", json.dumps(case))
    print("observed:", json.dumps(results[0])[:2000])
    for kind, msg in fails:
        print(f"FAILS [{kind}]: {msg}")
    shutil.rmtree(rundir, ignore_errors=True)
    if fails:
        print(f"VIOLATION property={prop} replay={path}")
        return 1
    print("property holds on this input")
    return 0


def main(argv):
    import warnings
    warnings.simplefilter("ignore")
    t0 = time.time()
    prop = argv[0]
    tier = os.environ.get("VERIF_TIER", "quick")
    replay_path = None
    i = 1
    while i < len(argv):
        if argv[i] == "--tier":
            tier = argv[i + 1]
            i += 2
        elif argv[i] == "--replay":
            replay_path = argv[i + 1]
            i += 2
        else:
            i += 1
    if tier not in ("quick", "thorough"):
        tier = "quick"
    seed = int(os.environ.get("VERIF_SEED", "0") or 0)
    mod = importlib.import_module(f"harness.props.{prop}")
    if replay_path:
        return replay(prop, mod, replay_path)

    rundir = os.path.join(BUILD, "run", f"{prop}.{os.getpid()}")
    shutil.rmtree(rundir, ignore_errors=True)
    os.makedirs(rundir)
    log = []
    broken = []        # obligations that no longer check: (what, detail)
    violations = []    # (kind, msg, case, result)
    known_hits = {}    # finding what -> first failing case
    notes = []

    # 1. build + theorems
    ok, out = ensure_build(log)
    if not ok:
        broken.append(("coq-build", "the Coq development does not build: " + out[-1500:]))
    forbidden = scan_forbidden()
    if forbidden:
        broken.append(("forbidden-constructs", "; ".join(forbidden[:5])))
    pok, theorems, assumptions, pout = (False, [], {}, "")
    if ok:
        pok, theorems, assumptions, pout = compile_props(prop, mod, rundir)
        if not pok:
            broken.append((f"theorems:{mod.PROPS_FILE}", pout[-1500:]))
    coqchk_note = None
    if ok and pok and tier == "thorough":
        # independent re-check of the compiled theorem file and everything it depends on
        modname = "SA." + mod.PROPS_FILE[:-2].replace("/", ".")
        p = sh(["timeout", "1500", "coqchk", "-silent", "-o", "-Q", os.path.join(COQDIR, "theories"), "SA", modname])
        out_chk = p.stdout + p.stderr
        m = re.search(r"\* Axioms:(.*?)\* Constants/Inductives relying on type-in-type:(.*?)\* Constants/Inductives relying on unsafe \(co\)fixpoints:(.*?)\* Inductives whose positivity is assumed:(.*)", out_chk, re.S)
        if p.returncode != 0 or not m:
            broken.append(("coqchk", out_chk[-800:]))
        else:
            coqchk_note = "coqchk -o " + modname + ": axioms " + " ".join(m.group(1).split()) + "; type-in-type " + " ".join(m.group(2).split()) + "; unsafe fixpoints " + " ".join(m.group(3).split()) + "; assumed positivity " + " ".join(m.group(4).split())
            if any(x.strip() != "<none>" for x in m.groups()[1:]):
                broken.append(("coqchk", coqchk_note))
    # 2. ties
    ties = run_ties(mod, rundir) if ok else []
    for t in ties:
        if not t["ok"]:
            broken.append((f"tie:{t['name']}", t["detail"]))

    mod.GEN_AVAILABLE = {t["gen_module"] for t in ties if t.get("gen_ok")}
    # 3./4. cases
    rng = random.Random(seed * 1000003 + 17)
    known = load_known(prop)
    corpus = []
    cdir = os.path.join(VERIF, "corpus", prop)
    if os.path.isdir(cdir):
        for f in sorted(os.listdir(cdir)):
            if f.endswith(".json"):
                data = json.load(open(os.path.join(cdir, f)))
                corpus += data if isinstance(data, list) else [data]
    known_examples = [dict(f["example"], _known=f["what"]) for f in known
                      if f.get("status") == "open" and f.get("example")]
    cases = [dict(c) for c in known_examples] + corpus + mod.gen_cases(rng, tier)
    results, err = run_impl(prop, [{k: v for k, v in c.items() if not k.startswith("_")} for c in cases], rundir)
    evaluations = 0
    nontrivial = set()
    disagreements = []
    terms = []
    coq_checked = 0
    if err:
        broken.append(("implementation", err))
        results = []
    for idx, (case, res) in enumerate(zip(cases, results)):
        evaluations += 1
        pure = {k: v for k, v in case.items() if not k.startswith("_")}
        try:
            fails = mod.oracle(pure, res)
        except Exception as ex:
            fails = [("oracle-crash", f"oracle could not interpret the implementation's output: {type(ex).__name__}: {ex}")]
        for kind, msg in fails:
            f = match_known(kind, known)
            if f is not None:
                known_hits.setdefault(f["what"], pure)
            else:
                violations.append((kind, msg, pure, res))
        try:
            if mod.nontrivial(pure, res):
                nontrivial.add(case_key(pure))
        except Exception:
            pass
        try:
            term = mod.coq_term(pure, res)
        except Exception as ex:
            term = None
            notes.append(f"coq_term failed on case {idx}: {type(ex).__name__}: {ex}")
        if term is not None:
            terms.append((idx, term))
    # 4b. history independence: a sample of the cases is run again in a FRESH interpreter process, in reverse order; every
    # observation is a function of the case alone, so the two runs must agree exactly (caches keyed too coarsely, state left
    # behind by earlier calls on other objects, buffers shared between results show up here whatever the property)
    if results and not err and os.environ.get("VERIF_HISTORY", "1") == "1":
        step = max(1, len(cases) // 24)
        idxs = list(range(len(known_examples) + len(corpus), len(cases), step))[:24]
        sub = [{k: v for k, v in cases[i].items() if not k.startswith("_")} for i in reversed(idxs)]
        r3, err3 = run_impl(prop, sub, rundir, tag="fresh")
        if err3:
            notes.append(f"fresh-process re-run failed: {err3[:200]}")
        else:
            notes.append(f"history independence: {len(idxs)} cases re-run in a fresh process in reverse order and compared exactly "
                         "with their observations in the long-running process")
            for i, res_f in zip(reversed(idxs), r3):
                canon = lambda o: re.sub(r"0x[0-9a-fA-F]+", "0x", json.dumps(o, sort_keys=True))   # object addresses in reprs
                if canon(res_f) != canon(results[i]):
                    pure = {k: v for k, v in cases[i].items() if not k.startswith("_")}
                    a_, b_ = canon(results[i]), canon(res_f)
                    pos_ = next((k_ for k_ in range(min(len(a_), len(b_))) if a_[k_] != b_[k_]), 0)
                    violations.append((f"{prop}/history-dependence",
                                       f"case #{i} gives different observations as the {i + 1}-th case of a long-running process and in a "
                                       f"fresh process: ...{a_[max(0, pos_ - 60):pos_ + 60]}... vs ...{b_[max(0, pos_ - 60):pos_ + 60]}...",
                                       pure, {"in_sequence": results[i], "fresh": res_f}))
                    break
    if ok and terms:
        extra_q = [(rundir, "Gen")] if ties else []
        imports = mod.COQ_IMPORTS + "".join(f"\nFrom Gen Require {g}." for g in sorted(mod.GEN_AVAILABLE))
        coq_checked, bad, errors = coqio.run_case_files(terms, imports, rundir, extra_q=extra_q,
                                                            chunk=getattr(mod, "CHUNK", 250))
        for name, msg, idxs in errors:
            broken.append(("correspondence-harness", f"{os.path.basename(name)}: {msg}"))
        for bidx in bad:
            pure = {k: v for k, v in cases[bidx].items() if not k.startswith("_")}
            disagreements.append((pure, results[bidx]))
        if bad:
            broken.append(("correspondence", f"model and implementation disagree on {len(bad)} of {coq_checked} cases; "
                           f"first: {json.dumps(disagreements[0][0])[:600]} -> {json.dumps(disagreements[0][1])[:600]}"))

    # stale / live known findings
    for f in known:
        if f.get("status") == "open":
            if f["what"] in known_hits:
                print(f"KNOWN-FINDING: property={prop} {f['what']}")
            else:
                notes.append(f"open known finding did not reproduce in this run (stale?): {f['what']}")

    # 5. search after a broken obligation
    searched = 0
    if broken and not violations and not err:
        extra = mod.gen_cases(random.Random(seed * 7919 + 3), "search")
        extra = [d[0] for d in disagreements] + extra
        r2, err2 = run_impl(prop, extra, rundir, tag="search")
        if not err2:
            for case, res in zip(extra, r2):
                searched += 1
                try:
                    fails = mod.oracle(case, res)
                except Exception as ex:
                    fails = [("oracle-crash", f"{type(ex).__name__}: {ex}")]
                for kind, msg in fails:
                    if match_known(kind, known) is None:
                        violations.append((kind, msg, case, res))
                if violations:
                    break

    # 6. decision
    rc = 0
    replay_file = None
    if violations:
        kind, msg, case, res = violations[0]
        case = getattr(mod, "shrink", lambda c, r, k: c)(case, res, kind)
        replay_file = write_replay(prop, {"property": prop, "kind": kind, "what": msg, "case": case,
                                          "observed": res, "broken": [b[0] for b in broken],
                                          "replay": f"./check {prop} --replay <this file>"})
        print(f"violating input [{kind}]: {msg}")
        print(f"VIOLATION property={prop} replay={replay_file}")
        rc = 1
    elif broken:
        replay_file = write_replay(prop, {"property": prop, "broken": [{"obligation": b[0], "detail": b[1]} for b in broken],
                                          "searched_inputs": searched + evaluations,
                                          "note": "an obligation (theorem, tie lemma or correspondence) no longer checks; "
                                                  "no input violating the property was found"})
        for b in broken:
            print(f"broken obligation {b[0]}: {b[1][:400]}")
        print(f"VIOLATION property={prop} replay={replay_file} no-failing-input-found")
        rc = 1

    # evidence
    thm_obl = [t for t in theorems]
    tie_obl = [l for t in ties for l in t["lemmas"]]
    obligations = len(thm_obl) + len(tie_obl)
    discharged = (len(thm_obl) if pok else 0) + sum(len(t["lemmas"]) for t in ties if t["ok"])
    samples = []
    for case, res in list(zip(cases, results))[:: max(1, len(cases) // 4)][:4]:
        samples.append({"case": {k: v for k, v in case.items() if not k.startswith("_")}, "impl": res})
    if not samples:
        samples = [{"obligation": t} for t in thm_obl[:3]]
    trusted = list(getattr(mod, "TRUSTED", [])) + [
        "Coq 8.16.1 kernel; vm_compute (correspondence evaluation); no native_compute",
        "harness: impl_driver canonicalisation, coq_term printers, property oracle (used for search/replay only)",
    ]
    for name, blk in assumptions.items():
        trusted.append(f"Print Assumptions {name}: {blk}")
    if coqchk_note:
        trusted.append(coqchk_note)
    for t in ties:
        trusted.append(f"translator {t['name']} (fail-closed ast whitelist) + tie lemmas {', '.join(t['lemmas'][:6])}{'...' if len(t['lemmas']) > 6 else ''}")
    dist = getattr(mod, "distribution", lambda cs, rs: {})(cases, results)
    evidence = {
        "property_id": prop, "tier": tier, "seed": seed, "level": "proof",
        "coverage": {
            "obligations": max(obligations, 1), "discharged": discharged,
            "checker_cmd": f"coqc -Q coq/theories SA coq/theories/{mod.PROPS_FILE} (+ make -C coq; ties: coqc on regenerated Gen_*.v and coq/ties/*.v)",
            "trusted_base": trusted,
            "theorems": thm_obl, "tie_lemmas": tie_obl,
            "evaluations": evaluations + searched,
            "distinct_nontrivial": len(nontrivial),
            "rule": mod.RULE,
            "samples": samples,
            "traces_validated_against_impl": coq_checked,
            "disagreements": len(disagreements),
            "input_distribution": dist,
            "anchored_statement_coverage": anchored_coverage(prop),
            "broken_obligations": [b[0] for b in broken],
            "known_findings_reproduced": sorted(known_hits),
            "notes": notes,
        },
        "assumptions": list(getattr(mod, "ASSUMPTIONS", [])),
        "wall_s": round(time.time() - t0, 2),
        "violations": len(violations) + (1 if (broken and not violations) else 0),
    }
    evdir = os.environ.get("VERIF_EVIDENCE_DIR") or os.path.join(VERIF, "evidence")   # seedtest redirects this
    os.makedirs(evdir, exist_ok=True)
    with open(os.path.join(evdir, f"{prop}.json"), "w") as fh:
        json.dump(evidence, fh, indent=1, default=str)
    if rc == 0:
        print(f"OK property={prop} tier={tier} theorems={len(thm_obl)} ties={len(tie_obl)} cases={evaluations} "
              f"model-vs-impl={coq_checked} nontrivial={len(nontrivial)} wall={evidence['wall_s']}s")
    if os.environ.get("VERIF_KEEP") != "1":
        shutil.rmtree(rundir, ignore_errors=True)
    return rc
