#!/bin/sh
# MANIFEST.setup_cmd: build the Coq development from files on disk (offline)
set -e
cd "$(dirname "$0")/coq"
./mkproject.sh
timeout 3000 make -j16
