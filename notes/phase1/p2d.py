# C02 oracle reading for near-ties: bracket with the metric evaluated a few ulp below/above the returned threshold
import numpy as np, collections
from score_analysis import Scores
rng=np.random.default_rng(34); bad=collections.Counter(); ex={}; tot=0; K=8
mets=["tpr","fnr","tnr","fpr","topr","tonr"]
def shift(t,k):
    for _ in range(abs(k)): t=np.nextafter(t, np.inf if k>0 else -np.inf)
    return t
for trial in range(1500):
    npos=int(rng.integers(2,10)); nneg=int(rng.integers(2,10))
    base=float(rng.choice([1.0,0.3,-2.7,1234.5,1e-3,0.7])); step=int(rng.integers(1,4)); ulp=np.spacing(abs(base))
    allv=base+ulp*step*rng.permutation(npos+nneg+3)[:npos+nneg]
    if len(set(allv.tolist()))<npos+nneg: continue
    pos,neg=allv[:npos],allv[npos:]
    ep=int(rng.integers(0,4))*int(rng.integers(0,2)); en=int(rng.integers(0,4))*int(rng.integers(0,2))
    for sc in ("pos","neg"):
        for ec in ("pos","neg"):
            s=Scores(pos,neg,nb_easy_pos=ep,nb_easy_neg=en,score_class=sc,equal_class=ec)
            for mt in mets:
                f=getattr(s,mt); Npop={"tpr":npos+ep,"fnr":npos+ep,"tnr":nneg+en,"fpr":nneg+en}.get(mt,npos+nneg+ep+en)
                lo,hi=sorted([f(-np.inf),f(np.inf)])
                for r in rng.uniform(0,1,3):
                    t=getattr(s,"threshold_at_"+mt)(r); rc=min(max(r,lo),hi); tot+=1
                    a,b=sorted([f(shift(t,-K)),f(shift(t,K))])
                    if not (a-1/Npop-1e-12<=rc<=b+1/Npop+1e-12): bad[mt]+=1; ex.setdefault(mt,(pos.tolist(),neg.tolist(),ep,en,sc,ec,r,t,a,b))
print(tot,bad)
for k,v in ex.items(): print(k,v)
