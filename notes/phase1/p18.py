import numpy as np, pandas as pd
from score_analysis import showbias, BootstrapConfig, Scores
from score_analysis.group_scores import GroupScores
rng = np.random.default_rng(0)
n=60
df = pd.DataFrame({"g": rng.choice(["a","b","c"], n), "h": rng.choice(["x_y","z"], n), "label": rng.integers(0,2,n), "score": rng.uniform(0,1,n)})
# 1. multi-col with underscore
try:
    bf = showbias(df, ["g","h"], "label","score","fnr", threshold=[0.5])
    print(bf.values)
except Exception as e: print("EXC multi", type(e).__name__, e)
# 2. by_min with bootstrap (quantile) - check lower<=value<=upper plausibility & what denominators used
np.random.seed(0)
cfg = BootstrapConfig(nb_samples=200, bootstrap_method="quantile", sampling_method="replacement", stratified_sampling="by_group")
bf = showbias(df, "g", "label","score","fnr", threshold=[0.3,0.5,0.7], normalize="by_min", bootstrap_ci=True, bootstrap_config=cfg)
print(bf.values); print(bf.lower); print(bf.upper)
np.random.seed(0)
cfg2 = BootstrapConfig(nb_samples=200, bootstrap_method="bca", sampling_method="replacement", stratified_sampling="by_group")
bf2 = showbias(df, "g", "label","score","fnr", threshold=[0.3,0.5,0.7], normalize="by_overall", bootstrap_ci=True, bootstrap_config=cfg2)
print(bf2.values); print(bf2.lower); print(bf2.upper)
