import numpy as np, warnings
from score_analysis import Scores, BootstrapConfig, roc, roc_with_ci
from score_analysis.experimental import pointwise_band_ci, simultaneous_joint_region_ci, fixed_width_band_ci
np.random.seed(0)
s = Scores(pos=np.random.normal(1,1,50), neg=np.random.normal(-1,1,60))
cfg = BootstrapConfig(nb_samples=20)
for f in (pointwise_band_ci, simultaneous_joint_region_ci, fixed_width_band_ci):
    try:
        r = f(s, nb_points=10, config=cfg)
        print(f.__name__, "ok", r.fnr_ci.shape)
    except Exception as e:
        print(f.__name__, "EXC", type(e).__name__, e)
