From Coq Require Import QArith ZArith List Lia.
Import ListNotations.
Open Scope Z_scope.
(* x = n/d > 0 a binary64 value. exponent e = floor(log2 x); ulp = 2^(max(e,-1022) - 52). *)
Definition two_pow (k : Z) : Q := if 0 <=? k then inject_Z (2 ^ k) else Qinv (inject_Z (2 ^ (- k))).
Definition ilog2 (x : Q) : Z :=   (* floor(log2 x) for x > 0 *)
  let n := Qnum x in let d := Zpos (Qden x) in
  let g := Z.log2 n - Z.log2 d in       (* g-1 <= floor(log2 x) <= g *)
  if Qle_bool (two_pow g) x then g else g - 1.
Definition ulp_at (e : Z) : Q := two_pow (Z.max e (-1022) - 52).
Definition succ_pos (x : Q) : Q := Qred (x + ulp_at (ilog2 x))%Q.
Definition pred_pos (x : Q) : Q :=   (* x > 0 *)
  let e := ilog2 x in
  (* if x is exactly 2^e (and normal, e > -1022) the gap below is half *)
  if Qeq_bool x (two_pow e) && (-1022 <? e) then Qred (x - ulp_at (e - 1))%Q else Qred (x - ulp_at e)%Q.
Definition minsub : Q := two_pow (-1074).
Definition succ64 (x : Q) : Q :=
  match Qcompare x 0 with Eq => minsub | Gt => succ_pos x | Lt => Qred (- pred_pos (- x))%Q end.
Definition pred64 (x : Q) : Q :=
  match Qcompare x 0 with Eq => Qred (- minsub)%Q | Gt => pred_pos x | Lt => Qred (- succ_pos (- x))%Q end.
