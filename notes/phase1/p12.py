import numpy as np, collections, warnings, math
from score_analysis import Scores, BootstrapConfig, GroupScores, groupwise, roc_with_ci
rng = np.random.default_rng(12)
bad=collections.Counter(); ex={}; tot=collections.Counter()
warnings.simplefilter("ignore")
for trial in range(1500):
    n=int(rng.integers(2,14)); G=int(rng.integers(1,4))
    scores=rng.integers(-5,6,n).astype(float)
    # make pairing identifiable: group determined by score value parity-ish + label
    groups=np.array(["g%d"%(int(abs(x))%G) for x in scores]); labels=rng.integers(0,2,n)
    sc=str(rng.choice(["pos","neg"])); ec=str(rng.choice(["pos","neg"]))
    gs=GroupScores.from_labels(labels,scores,groups,score_class=sc,equal_class=ec)
    def chk(o,name):
        for arr,gr in ((o.pos,o.pos_groups),(o.neg,o.neg_groups)):
            if any(g!="g%d"%(int(abs(x))%G) for x,g in zip(arr,gr)): bad[name+"_pair"]+=1; ex.setdefault(name+"_pair",(scores,groups,labels,arr,gr))
            if np.any(np.diff(arr)<0): bad[name+"_sorted"]+=1
    chk(gs,"ctor"); chk(gs.swap(),"swap")
    t=rng.uniform(-6,6,3)
    tot_cm=gs.cm(t).matrix; gcm=gs.group_cm(t).matrix
    if not np.array_equal(gcm.sum(axis=0),tot_cm): bad["sum"]+=1; ex.setdefault("sum",(scores,groups,labels,t))
    for gi,g in enumerate(gs.groups):
        f=Scores(scores[(groups==g)&(labels==1)],scores[(groups==g)&(labels!=1)],score_class=sc,equal_class=ec)
        if not np.array_equal(f.cm(t).matrix,gcm[gi]): bad["filtered"]+=1
        if not (gs[g]==f): bad["getitem"]+=1
    for meth in ("replacement","single_pass","dynamic"):
        for strat in (None,"by_label","by_group"):
            cfg=BootstrapConfig(sampling_method=meth,stratified_sampling=strat)
            np.random.seed(trial)
            try: b=gs.bootstrap_sample(cfg)
            except Exception as e:
                bad["exc_%s_%s"%(meth,strat)]+=1; ex.setdefault("exc_%s_%s"%(meth,strat),(scores,groups,labels,repr(e))); continue
            chk(b,"bs_%s_%s"%(meth,strat))
            if list(b.groups)!=list(gs.groups): bad["names"]+=1
            if strat=="by_group" and meth!="single_pass":
                for g in gs.groups:
                    c0=(groups==g).sum(); c1=(b.pos_groups==g).sum()+(b.neg_groups==g).sum()
                    if c0!=c1: bad["groupcount"]+=1; ex.setdefault("groupcount",(scores,groups,labels,g,c0,c1))
print(bad)
for k,v in ex.items(): print(k,v)
