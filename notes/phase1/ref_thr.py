# Exact-rational reference of the threshold pipeline (blueprint of Model/Threshold.v), compared with the implementation.
import numpy as np, math, collections, sys
from fractions import Fraction as F
from score_analysis import Scores

def fl(x): return math.floor(x)
def ce(x): return math.ceil(x)

class M:  # exact model; thresholds are (Fraction, eps:int)
    def __init__(s,pos,neg,ep,en,sc,ec):
        s.pos=sorted(F(x) for x in pos); s.neg=sorted(F(x) for x in neg); s.ep=ep; s.en=en; s.sc=sc; s.ec=ec
    def hard_pos_ratio(s): return F(len(s.pos),len(s.pos)+s.ep) if s.ep>0 else F(1)
    def hard_neg_ratio(s): return F(len(s.neg),len(s.neg)+s.en) if s.en>0 else F(1)
    def nall(s): return len(s.pos)+len(s.neg)+s.ep+s.en
    def easy_ratio(s): return F(s.ep+s.en,s.nall()) if s.ep+s.en>0 else F(0)
    def thr(s,metric,r,method="linear"):
        r=F(r)
        if metric=="tpr":
            u=max(r-(1-s.hard_pos_ratio()),0); u=min(u/s.hard_pos_ratio(),1); return s.ratio(s.pos,u,False,"pos",method)
        if metric=="fnr":
            u=min(r/s.hard_pos_ratio(),1); return s.ratio(s.pos,u,True,"pos",method)
        if metric=="tnr":
            u=max(r-(1-s.hard_neg_ratio()),0); u=min(u/s.hard_neg_ratio(),1); return s.ratio(s.neg,u,True,"neg",method)
        if metric=="fpr":
            u=min(r/s.hard_neg_ratio(),1); return s.ratio(s.neg,u,False,"neg",method)
        allv=sorted(s.pos+s.neg); hard_ratio=1-s.easy_ratio()
        if metric=="topr":
            u=max(r-F(s.ep,s.nall()),0); u=min(u/hard_ratio,1); return s.ratio(allv,u,False,"pos",method)
        if metric=="tonr":
            u=max(r-F(s.en,s.nall()),0); u=min(u/hard_ratio,1); return s.ratio(allv,u,True,"neg",method)
    def ratio(s,scores,u,increasing,ratio_class,method):
        rev={"lower":"higher","higher":"lower","linear":"linear"}
        lc = ratio_class=="pos"
        if s.ec!="pos": lc=not lc
        if not increasing: u=1-u; method=rev[method]
        if s.sc!="pos": u=1-u; lc=not lc; method=rev[method]
        return s.inv(scores,u,lc,method)
    @staticmethod
    def inv(scores,u,lc,method):
        n=len(scores)
        if not lc: u=u-F(1,n)
        tg=u*n
        li=fl(tg); ri=ce(tg); la=ri-tg
        li=max(min(li,n-1),0); ri=max(min(ri,n-1),0)
        if method=="linear": t=(la*scores[li]+(1-la)*scores[ri],0)
        elif method=="lower": t=(scores[li],0)
        else: t=(scores[ri],0)
        if u<=0: t=(scores[0],-1)
        if u>=1: t=(scores[-1],1)
        return t

def to_qe(t, allscores):
    # locate float t: exact score-neighbour sentinel or plain value
    for sv in allscores:
        if t==np.nextafter(sv,-np.inf): return (F(float(sv)),-1)
        if t==np.nextafter(sv,np.inf): return (F(float(sv)),1)
    return (F(float(t)),0)

rng=np.random.default_rng(int(sys.argv[1]) if len(sys.argv)>1 else 0)
mets=["tpr","fnr","tnr","fpr","topr","tonr"]
stats=collections.Counter(); ex={}
for trial in range(3000):
    npos=int(rng.integers(1,9)); nneg=int(rng.integers(1,9))
    pos=rng.integers(-16,17,npos)/4.0; neg=rng.integers(-16,17,nneg)/4.0
    # easy counts making ratios dyadic: choose totals power of two where possible
    def easy_for(n):
        c=[e for e in range(0,40) if (n+e)&(n+e-1)==0]
        return int(rng.choice([0]+c))
    ep=easy_for(npos); en=easy_for(nneg)
    # for topr/tonr need nall power of 2 too: skip exactness claim unless so
    for sc in ("pos","neg"):
        for ec in ("pos","neg"):
            s=Scores(pos,neg,nb_easy_pos=ep,nb_easy_neg=en,score_class=sc,equal_class=ec)
            m=M(pos.tolist(),neg.tolist(),ep,en,sc,ec)
            for mt in mets:
                nall=npos+nneg+ep+en
                if mt in ("topr","tonr") and (ep+en>0) and (nall&(nall-1))!=0: continue
                # choose rescaled target u dyadic then map back to r
                u=F(int(rng.integers(-8,73)),64)
                if mt=="tpr": r=u*m.hard_pos_ratio()+(1-m.hard_pos_ratio())
                elif mt=="fnr": r=u*m.hard_pos_ratio()
                elif mt=="tnr": r=u*m.hard_neg_ratio()+(1-m.hard_neg_ratio())
                elif mt=="fpr": r=u*m.hard_neg_ratio()
                elif mt=="topr": r=u*(1-m.easy_ratio())+F(ep,nall)
                else: r=u*(1-m.easy_ratio())+F(en,nall)
                if F(float(r))!=r: stats["r_not_float"]+=1; continue
                for meth in ("linear","lower","higher"):
                    n_rel={"tpr":npos,"fnr":npos,"tnr":nneg,"fpr":nneg}.get(mt,npos+nneg)
                    t_impl=getattr(s,"threshold_at_"+mt)(float(r),method=meth)
                    t_mod=m.thr(mt,r,meth)
                    rel = {"tpr":pos,"fnr":pos,"tnr":neg,"fpr":neg}.get(mt,np.concatenate([pos,neg]))
                    got=to_qe(t_impl,[rel.min(),rel.max()]) if t_mod[1]!=0 else (F(float(t_impl)),0)
                    pow2 = (n_rel&(n_rel-1))==0
                    key="pow2N" if pow2 else "otherN"
                    stats["tot_"+key]+=1
                    if got!=t_mod:
                        stats["diff_"+key]+=1; ex.setdefault(key,(pos.tolist(),neg.tolist(),ep,en,sc,ec,mt,float(r),meth,t_impl,t_mod))
print(stats)
for k,v in ex.items(): print(k,v)
