(* Exploration: core of C02 (DESIGN Appendix A.2) over Q. Not framework code. *)
From Coq Require Import QArith Qround ZArith List Lia Lqa Bool Sorting.Sorted.
From Notes Require Import Ord.
Import ListNotations.
Open Scope Q_scope.

Definition leQ (a b : Q) : bool := Qle_bool a b.
Lemma leQ_total x y : leQ x y = true \/ leQ y x = true.
Proof. unfold leQ; rewrite !Qle_bool_iff. destruct (Qlt_le_dec x y); [left; lra|right; lra]. Qed.
Lemma leQ_trans x y z : leQ x y = true -> leQ y z = true -> leQ x z = true.
Proof. unfold leQ; rewrite !Qle_bool_iff; lra. Qed.

Notation cntlt := (count_lt Q leQ).
Notation cntle := (count_le Q leQ).
Notation sorted := (StronglySorted (le Q leQ)).

(* the interior, unshifted, linear case of _invert_increasing_function *)
Definition clampi (n : nat) (z : Z) : nat := Z.to_nat (Z.max 0 (Z.min z (Z.of_nat n - 1))).
Definition inv_linear (l : list Q) (x : Q) : Q :=   (* x = target = target_ratio * len *)
  let n := length l in
  let li := clampi n (Qfloor x) in
  let ri := clampi n (Qceiling x) in
  let la := inject_Z (Qceiling x) - x in
  la * nth li l 0 + (1 - la) * nth ri l 0.

Lemma nth_skipn_add (l : list Q) i k d : nth k (skipn i l) d = nth (i + k) l d.
Proof. revert l; induction i as [|i IH]; intros l; [reflexivity|]. destruct l as [|a r]; [destruct k; reflexivity|]. simpl. apply IH. Qed.

Lemma sorted_nth_mono l i j :
  sorted l -> (i <= j)%nat -> (j < length l)%nat -> nth i l 0 <= nth j l 0.
Proof.
  intros Hs Hij Hj.
  pose proof (sorted_tail_ge Q leQ leQ_total 0 l i Hs ltac:(lia)) as H.
  rewrite Forall_forall in H.
  assert (In (nth j l 0) (skipn i l)).
  { replace j with (i + (j - i))%nat by lia. rewrite <- nth_skipn_add. apply nth_In. rewrite skipn_length. lia. }
  specialize (H _ H0). unfold le, leQ in H. apply Qle_bool_iff in H. exact H.
Qed.

Lemma la_range x : 0 <= inject_Z (Qceiling x) - x < 1.
Proof.
  pose proof (Qle_ceiling x). pose proof (Qceiling_lt x) as H0.
  unfold Z.sub in H0. rewrite inject_Z_plus, inject_Z_opp in H0. change (inject_Z 1) with 1 in H0. split; lra.
Qed.

Lemma floor_le_ceiling x : (Qfloor x <= Qceiling x)%Z.
Proof.
  pose proof (Qfloor_le x). pose proof (Qle_ceiling x).
  assert (inject_Z (Qfloor x) <= inject_Z (Qceiling x)) by lra.
  now rewrite <- Zle_Qle in H1.
Qed.

(* T lies between the two selected order statistics *)
Lemma inv_linear_between l x :
  sorted l -> (0 < length l)%nat ->
  nth (clampi (length l) (Qfloor x)) l 0 <= inv_linear l x <= nth (clampi (length l) (Qceiling x)) l 0.
Proof.
  intros Hs Hn. unfold inv_linear.
  set (li := clampi _ (Qfloor x)). set (ri := clampi _ (Qceiling x)).
  assert (Hli : (li <= ri)%nat) by (unfold li, ri, clampi; pose proof (floor_le_ceiling x); lia).
  assert (Hri : (ri < length l)%nat) by (unfold ri, clampi; lia).
  pose proof (sorted_nth_mono l li ri Hs Hli Hri) as Hm.
  pose proof (la_range x) as [Hl0 Hl1].
  set (la := inject_Z (Qceiling x) - x) in *.
  split; nra.
Qed.

(* the bracket: at most ceil(x) elements strictly below T (interior targets) *)
Theorem bracket_below l x :
  sorted l -> (0 < length l)%nat -> 0 <= x -> x <= inject_Z (Z.of_nat (length l) - 1) ->
  (Z.of_nat (cntlt l (inv_linear l x)) <= Qceiling x)%Z.
Proof.
  intros Hs Hn Hx0 Hx1.
  pose proof (inv_linear_between l x Hs Hn) as [_ Hup].
  assert (Hc0 : (0 <= Qceiling x)%Z).
  { pose proof (Qle_ceiling x). assert (inject_Z 0 <= inject_Z (Qceiling x)) by (change (inject_Z 0) with 0; lra). now rewrite <- Zle_Qle in H0. }
  assert (Hc1 : (Qceiling x <= Z.of_nat (length l) - 1)%Z).
  { apply Qceiling_resp_le in Hx1. rewrite Qceiling_Z in Hx1. exact Hx1. }
  assert (Hidx : clampi (length l) (Qceiling x) = Z.to_nat (Qceiling x)) by (unfold clampi; lia).
  rewrite Hidx in Hup.
  pose proof (count_lt_le_index Q leQ leQ_trans 0 l (Z.to_nat (Qceiling x)) (inv_linear l x) Hs ltac:(lia)) as H.
  assert (le Q leQ (inv_linear l x) (nth (Z.to_nat (Qceiling x)) l 0)) by (unfold le, leQ; apply Qle_bool_iff; exact Hup).
  specialize (H H0). lia.
Qed.
Print Assumptions bracket_below.
