import numpy as np, collections
from fractions import Fraction as F
from score_analysis import Scores
rng = np.random.default_rng(4)
bad=collections.Counter(); tot=0; ex={}
def mw(pos,neg,ep,en,sc):
    # P(pos ranked on positive side of neg) + .5 ties ; easy beyond everything
    P=len(pos)+ep; N=len(neg)+en
    w=F(0)
    for p in pos:
        for n in neg:
            if p==n: w+=F(1,2)
            elif (p>n) == (sc=="pos"): w+=1
    w += ep*N + en*len(pos)  # easy pos beats all negs; easy neg loses to all hard pos
    return w/(P*N)
for trial in range(3000):
    npos = int(rng.integers(1,8)); nneg = int(rng.integers(1,8))
    pos = rng.integers(-4,5,npos).astype(float); neg = rng.integers(-4,5,nneg).astype(float)
    ep = int(rng.integers(0,4))*int(rng.integers(0,2)); en = int(rng.integers(0,4))*int(rng.integers(0,2))
    for sc in ("pos","neg"):
        for ec in ("pos","neg"):
            s = Scores(pos,neg,nb_easy_pos=ep,nb_easy_neg=en,score_class=sc,equal_class=ec)
            a = s.auc(); w = mw(pos,neg,ep,en,sc); tot+=1
            if abs(a-float(w))>1e-12:
                bad[(sc,ec,"easy" if ep or en else "noeasy")]+=1; ex.setdefault((sc,ec),(pos.tolist(),neg.tolist(),ep,en,a,float(w)))
print(tot,bad); 
for k,v in ex.items(): print(k,v)
