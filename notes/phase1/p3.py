import numpy as np
from score_analysis import Scores
s = Scores(pos=[1.5,2.5,3.5,4.5], neg=[1,2,3,4])
for sc in ("pos","neg"):
  for ec in ("pos","neg"):
    s = Scores(pos=[1.5,2.5,3.5,4.5], neg=[1,2,3,4], score_class=sc, equal_class=ec)
    for m in ["tpr","fnr","tnr","fpr","topr","tonr"]:
        out=[]
        for r in (0.0, 0.25,0.5, 1.0):
            t = getattr(s,"threshold_at_"+m)(r); out.append((r, t, getattr(s,m)(t)))
        print(sc,ec,m,out)
