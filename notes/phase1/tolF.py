# How far is the float implementation from the exact-rational model on arbitrary doubles? (stream F tolerance)
import numpy as np, math, collections, sys
from fractions import Fraction as F
exec(open("ref_thr.py").read().split("def to_qe")[0])   # class M (exact model; sentinels as (value, +-1))
from score_analysis import Scores
rng=np.random.default_rng(7); mets=["tpr","fnr","tnr","fpr","topr","tonr"]
worst_ulp=0; worst_gap=0; hist=collections.Counter(); ex=None; cnt_dev=0; tot=0; sent_mismatch=0
for trial in range(1500):
    npos=int(rng.integers(1,12)); nneg=int(rng.integers(1,12))
    kind=rng.integers(0,4)
    if kind==0: pos=rng.normal(0,1,npos); neg=rng.normal(0.5,1,nneg)
    elif kind==1: pos=np.round(rng.normal(0,1,npos),2); neg=np.round(rng.normal(0,1,nneg),2)
    elif kind==2: pos=rng.uniform(0,1,npos)*1e6; neg=rng.uniform(0,1,nneg)*1e6
    else:
        base=rng.normal(0,1); pos=base+np.arange(npos)*np.spacing(base)*rng.integers(1,4); neg=base+np.arange(nneg)*np.spacing(base)*rng.integers(1,4)  # near-ties: few ulps apart
    ep=int(rng.integers(0,6))*int(rng.integers(0,2)); en=int(rng.integers(0,6))*int(rng.integers(0,2))
    for sc in ("pos","neg"):
        for ec in ("pos","neg"):
            s=Scores(pos,neg,nb_easy_pos=ep,nb_easy_neg=en,score_class=sc,equal_class=ec)
            m=M([float(x) for x in pos],[float(x) for x in neg],ep,en,sc,ec)
            for mt in mets:
                rel={"tpr":pos,"fnr":pos,"tnr":neg,"fpr":neg}.get(mt,np.concatenate([pos,neg]))
                for r in list(rng.uniform(-0.05,1.05,2))+[int(rng.integers(0,len(rel)+1))/len(rel)]:
                    for meth in ("linear",):
                        ti=float(getattr(s,"threshold_at_"+mt)(r,method=meth)); tm=m.thr(mt,F(r),meth)
                        tot+=1
                        if tm[1]!=0:
                            want=float(np.nextafter(float(tm[0]),np.inf if tm[1]>0 else -np.inf))
                            if ti!=want:
                                # sentinel in model, not in impl (or vice versa)
                                sent_mismatch+=1
                                dev=abs(F(ti)-tm[0])
                            else: continue
                        else: dev=abs(F(ti)-tm[0])
                        if dev==0: continue
                        cnt_dev+=1
                        scale=max(abs(rel.min()),abs(rel.max())); u=np.spacing(scale)
                        du=float(dev)/u; gap=float(rel.max()-rel.min()) or 1.0
                        dg=float(dev)/gap
                        hist[min(int(du),20)]+=1
                        if du>worst_ulp: worst_ulp=du; ex=(kind,pos.tolist(),neg.tolist(),ep,en,sc,ec,mt,r,ti,float(tm[0]),tm[1])
                        worst_gap=max(worst_gap,dg)
print("total",tot,"with deviation",cnt_dev,"sentinel mismatches",sent_mismatch)
print("worst dev in ulps of max|score|:",worst_ulp,"; worst dev / range:",worst_gap)
print("hist (ulps, capped 20):",sorted(hist.items()))
print("example",ex)
