import numpy as np, collections
from score_analysis import Scores
rng = np.random.default_rng(3)
worst = collections.defaultdict(float); ex={}
zero_bad=[]; exc=collections.Counter()
for trial in range(4000):
    npos = int(rng.integers(1,9)); nneg = int(rng.integers(1,9))
    allv = rng.choice(np.arange(-40,40), size=npos+nneg, replace=False).astype(float)/4
    sep = rng.integers(0,4)
    if sep==0: allv=np.sort(allv)
    if sep==1: allv=np.sort(allv)[::-1]
    pos, neg = allv[:npos], allv[npos:]
    ep = int(rng.integers(0,4))*int(rng.integers(0,2)); en = int(rng.integers(0,4))*int(rng.integers(0,2))
    for sc in ("pos","neg"):
        for ec in ("pos","neg"):
            s = Scores(pos,neg,nb_easy_pos=ep,nb_easy_neg=en,score_class=sc,equal_class=ec)
            try:
                t,e = s.eer()
            except Exception as ex_:
                exc[(type(ex_).__name__,str(ex_)[:50])]+=1; continue
            fpr, fnr = s.fpr(t), s.fnr(t)
            d1 = abs(fpr-e)*(nneg+en); d2 = abs(fnr-e)*(npos+ep)
            # 'within one sample': of each population
            k=(sc,ec, "easy" if ep or en else "noeasy")
            m = max(d1,d2)
            if m>worst[k]: worst[k]=m; ex[k]=(pos.tolist(),neg.tolist(),ep,en,t,e,fpr,fnr)
            if not (0<=e<=1) or e>min(s.hard_pos_ratio,s.hard_neg_ratio)+1e-12: print("range bad", pos,neg,ep,en,sc,ec,t,e)
            if e==0 and (fpr!=0 or fnr!=0): zero_bad.append((pos.tolist(),neg.tolist(),ep,en,sc,ec,t,e,fpr,fnr))
for k in sorted(worst): print(k, worst[k], ex[k] if worst[k]>1+1e-9 else "")
print("zero bad", len(zero_bad), zero_bad[:5]); print(exc)
