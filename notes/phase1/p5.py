import numpy as np, collections, warnings, pandas as pd, itertools
from score_analysis import Scores, BootstrapConfig, ConfusionMatrix, GroupScores, pointwise_cm
warnings.simplefilter("ignore")
rng=np.random.default_rng(55); bad=collections.Counter(); ex={}
# C05
for trial in range(600):
    K=int(rng.integers(2,5)); n=int(rng.integers(0,15))
    cls=list(rng.permutation(["a","b","c","d","e"])[:K]) if rng.integers(0,2) else list(map(int,rng.permutation(7)[:K]))
    lab=[cls[i] for i in rng.integers(0,K,n)]; pr=[cls[i] for i in rng.integers(0,K,n)]
    w=None if rng.integers(0,2) else list(rng.choice([1,2,3,0.5],n))
    try:
        cm=ConfusionMatrix(labels=lab,predictions=pr,weights=w,classes=cls)
    except Exception as e:
        bad["exc"]+=1; ex.setdefault("exc",(cls,lab,pr,w,repr(e))); continue
    M=np.zeros((K,K)); 
    for l,p,ww in zip(lab,pr,w if w is not None else [1]*n): M[cls.index(l),cls.index(p)]+=ww
    if not np.array_equal(cm.matrix,M): bad["entry"]+=1; ex.setdefault("entry",(cls,lab,pr,w,cm.matrix,M))
    perm=list(rng.permutation(K)); cls2=[cls[i] for i in perm]
    d={r:{c:M[cls.index(r),cls.index(c)] for c in cls} for r in cls}
    cm2=ConfusionMatrix(matrix=d,classes=cls2); cm3=ConfusionMatrix(matrix=pd.DataFrame(M,index=cls,columns=cls),classes=cls2)
    Mp=M[np.ix_(perm,perm)]
    if not (np.array_equal(cm2.matrix,Mp) and np.array_equal(cm3.matrix,Mp)): bad["reorder"]+=1
    ova=cm.one_vs_all().matrix
    if ova.shape!=(K,2,2): bad["ovashape"]+=1
    for j in range(K):
        if ova[j].sum()!=M.sum() or ova[j,0,0]!=M[j,j] or ova[j,0].sum()!=M[j].sum() or ova[j,:,0].sum()!=M[:,j].sum(): bad["ova"]+=1
    t=cm.tpr(); td=cm.tpr(as_dict=True)
    if any(not (np.isnan(t[j]) and np.isnan(td[c]) or t[j]==td[c]) for j,c in enumerate(cls)): bad["asdict"]+=1
    tp2=ConfusionMatrix(matrix=Mp,classes=cls2).tpr()
    if not np.array_equal(np.nan_to_num(tp2,nan=-1),np.nan_to_num(t[perm],nan=-1)): bad["equiv"]+=1
    if M.sum()>0 and abs(cm.accuracy()-np.trace(M)/M.sum())>1e-15: bad["acc"]+=1
print("C05",bad); 
for k,v in ex.items(): print(k,v)
# C10 shapes/mutation
bad=collections.Counter(); ex={}
for trial in range(300):
    npos=int(rng.integers(0,6)); nneg=int(rng.integers(0,6))
    pos=rng.integers(-5,6,npos).astype(float); neg=rng.integers(-5,6,nneg).astype(float)
    pos0,neg0=pos.copy(),neg.copy()
    sc=str(rng.choice(["pos","neg"])); ec=str(rng.choice(["pos","neg"]))
    s=Scores(pos,neg,nb_easy_pos=int(rng.integers(0,3)),nb_easy_neg=int(rng.integers(0,3)),score_class=sc,equal_class=ec)
    sp,sn=s.pos.copy(),s.neg.copy()
    shape=[(),(3,),(2,3),(0,),(2,0,2),(1,1,1)][int(rng.integers(0,6))]
    T=rng.uniform(-6,6,shape); T0=T.copy()
    c=s.cm(T)
    if c.matrix.shape!=shape+(2,2): bad["cmshape"]+=1
    for idx in np.ndindex(*shape):
        if not np.array_equal(c.matrix[idx],s.cm(float(T[idx])).matrix): bad["elem"]+=1
    for m in ("tpr","fnr","tnr","fpr","topr","tonr"):
        v=getattr(s,m)(T)
        if shape==() and not isinstance(v,float): bad["scalar_"+m]+=1; ex.setdefault("scalar_"+m,type(v))
        if shape!=() and np.shape(v)!=shape: bad["rshape"]+=1
        rel={"tpr":npos,"fnr":npos,"tnr":nneg,"fpr":nneg}.get(m,npos+nneg)
        if rel>0:
            R=rng.uniform(-0.1,1.1,shape); R0=R.copy()
            th=getattr(s,"threshold_at_"+m)(R if shape!=() else float(R))
            if shape==() and not isinstance(th,float): bad["thscalar"]+=1; ex.setdefault("thscalar",type(th))
            if shape!=() and np.shape(th)!=shape: bad["thshape"]+=1
            for idx in np.ndindex(*shape):
                if shape!=() and th[idx]!=getattr(s,"threshold_at_"+m)(float(R[idx])): bad["thelem"]+=1
            if not np.array_equal(R,R0): bad["mutR"]+=1
    if not (np.array_equal(T,T0) and np.array_equal(pos,pos0) and np.array_equal(neg,neg0) and np.array_equal(s.pos,sp) and np.array_equal(s.neg,sn)): bad["mut"]+=1
print("C10",bad,ex)
