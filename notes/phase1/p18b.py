# C18: by_min / by_overall when one group's metric is NaN (group has no positives) or the minimum is 0
import numpy as np, pandas as pd
from score_analysis import showbias
df = pd.DataFrame({"g": ["a","a","a","b","b","b","c","c"],
                   "label": [1,1,0, 1,1,1, 0,0],          # group c has no positives -> fnr NaN
                   "score": [0.2,0.8,0.5, 0.1,0.3,0.9, 0.4,0.6]})
for norm in (None,"by_min","by_overall"):
    bf = showbias(df,"g","label","score","fnr",threshold=[0.25,0.5],normalize=norm)
    print(norm); print(bf.values)
