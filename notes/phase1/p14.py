# C14: bootstrap_metric rows / bootstrap_ci assembly with a counting deterministic sampler
import numpy as np, collections, warnings
from score_analysis import Scores, BootstrapConfig, GroupScores, groupwise
from score_analysis.utils import bootstrap_ci as ci_formula
warnings.simplefilter("ignore")
rng=np.random.default_rng(14); bad=collections.Counter(); ex={}
for trial in range(300):
    npos=int(rng.integers(2,8)); nneg=int(rng.integers(2,8))
    pos=rng.normal(1,1,npos); neg=rng.normal(-1,1,nneg)
    s=Scores(pos,neg)
    calls=[]
    def sampler(src):
        j=len(calls); calls.append(j)
        return Scores(src.pos+j, src.neg-j, score_class=src.score_class, equal_class=src.equal_class)
    def metric(sc, k=1.0, **kw):
        return np.array([sc.pos.mean()*k, sc.neg.mean()])
    n=int(rng.integers(1,9)); meth=str(rng.choice(["quantile","bc","bca"]))
    cfg=BootstrapConfig(nb_samples=n, sampling_method=sampler, bootstrap_method=meth)
    rows=s.bootstrap_metric(metric,config=cfg,k=2.0)
    if rows.shape!=(n,2): bad["shape"]+=1
    exp=np.array([[ (pos+j).mean()*2.0, (neg-j).mean()] for j in range(n)])
    if not np.allclose(rows,exp,rtol=0,atol=1e-12): bad["rows"]+=1; ex.setdefault("rows",(rows,exp))
    calls.clear()
    ci=s.bootstrap_ci(metric,alpha=0.1,config=cfg,k=2.0)
    exp_ci=ci_formula(rows, metric(s,k=2.0), 0.1, method=meth)  # use the actual replicate rows: recomputed means differ in the last bit (summation order after sorting) and flip theta<=theta_hat
    if not np.allclose(ci,exp_ci,equal_nan=True): bad["ci"]+=1; ex.setdefault("ci",(meth,ci,exp_ci))
    # identity sampler collapses
    cfg2=BootstrapConfig(nb_samples=n, sampling_method=lambda x:x, bootstrap_method=meth)
    ci2=s.bootstrap_ci("fnr",alpha=0.05,config=cfg2,threshold=np.array([0.0,0.5]))
    th=s.fnr(np.array([0.0,0.5]))
    if not (np.array_equal(ci2[...,0],th) and np.array_equal(ci2[...,1],th)): bad["identity_"+meth]+=1; ex.setdefault("identity_"+meth,(ci2,th))
    # by-name on GroupScores
    g=GroupScores(pos,neg,pos_groups=["a","b"]*(npos//2)+["a"]*(npos%2),neg_groups=["b","a"]*(nneg//2)+["b"]*(nneg%2))
    np.random.seed(trial); r1=g.bootstrap_metric("group_fnr",config=BootstrapConfig(nb_samples=3,stratified_sampling="by_group"),threshold=0.0)
    np.random.seed(trial); r2=g.bootstrap_metric("group_fnr",config=BootstrapConfig(nb_samples=3,stratified_sampling="by_group"),threshold=0.0)
    if r1.shape!=(3,2) or not np.array_equal(r1,r2,equal_nan=True): bad["group_repro"]+=1
print(bad)
for k,v in ex.items(): print(k,v)
