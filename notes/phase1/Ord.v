From Coq Require Import List Arith Lia Bool Sorting.Sorted.
Import ListNotations.

Section Ord.
  Variable A : Type.
  Variable leb : A -> A -> bool.
  Hypothesis leb_total : forall x y, leb x y = true \/ leb y x = true.
  Hypothesis leb_trans : forall x y z, leb x y = true -> leb y z = true -> leb x z = true.
  Definition ltb x y := negb (leb y x).
  Definition le x y := leb x y = true.

  Fixpoint count (f : A -> bool) (l : list A) : nat :=
    match l with [] => 0 | x :: r => (if f x then 1 else 0) + count f r end.

  Lemma count_le_length f l : count f l <= length l.
  Proof. induction l as [|x r IH]; simpl; [lia|destruct (f x); lia]. Qed.

  Lemma count_all f l : Forall (fun x => f x = true) l -> count f l = length l.
  Proof. induction 1 as [|x r Hx _ IH]; simpl; [reflexivity|rewrite Hx, IH; reflexivity]. Qed.
  Lemma count_none f l : Forall (fun x => f x = false) l -> count f l = 0.
  Proof. induction 1 as [|x r Hx _ IH]; simpl; [reflexivity|rewrite Hx, IH; reflexivity]. Qed.

  (* numpy searchsorted contracts, as counts *)
  Definition count_lt l t := count (fun x => ltb x t) l.   (* side=left  *)
  Definition count_le l t := count (fun x => leb x t) l.   (* side=right *)

  Lemma sorted_tail_ge d l i :
    StronglySorted le l -> i < length l -> Forall (fun x => le (nth i l d) x) (skipn i l).
  Proof.
    revert i; induction l as [|x r IH]; intros i Hs Hi; simpl in Hi; [lia|].
    inversion Hs as [|? ? Hr Hall]; subst.
    destruct i as [|i]; simpl.
    - constructor; [destruct (leb_total x x) as [H|H]; exact H|exact Hall].
    - apply IH; [exact Hr|lia].
  Qed.

  (* if t <= l[i] then at most i elements are < t *)
  Lemma count_lt_le_index d l i t :
    StronglySorted le l -> i < length l -> le t (nth i l d) -> count_lt l t <= i.
  Proof.
    revert i; induction l as [|x r IH]; intros i Hs Hi Ht; simpl in Hi; [lia|].
    inversion Hs as [|? ? Hr Hall]; subst.
    destruct i as [|i]; simpl in *.
    - (* everything >= x >= t *)
      unfold count_lt; simpl. unfold ltb at 1. rewrite Ht; simpl.
      rewrite count_none; [lia|].
      eapply Forall_impl; [|exact Hall]. intros y Hy. unfold ltb.
      rewrite (leb_trans _ _ _ Ht Hy). reflexivity.
    - unfold count_lt in *; simpl. specialize (IH i Hr ltac:(lia) Ht).
      destruct (ltb x t); lia.
  Qed.

  (* if l[i] <= t then at least i+1 elements are <= t *)
  Lemma count_le_ge_index d l i t :
    StronglySorted le l -> i < length l -> le (nth i l d) t -> i + 1 <= count_le l t.
  Proof.
    revert i; induction l as [|x r IH]; intros i Hs Hi Ht; simpl in Hi; [lia|].
    inversion Hs as [|? ? Hr Hall]; subst.
    destruct i as [|i]; simpl in *.
    - unfold count_le; simpl. rewrite Ht. lia.
    - unfold count_le in *; simpl.
      assert (Hx : leb x t = true).
      { apply leb_trans with (nth i r d); [|exact Ht].
        rewrite Forall_forall in Hall. apply Hall. apply nth_In. lia. }
      rewrite Hx. specialize (IH i Hr ltac:(lia) Ht). lia.
  Qed.
End Ord.
