import numpy as np, collections, warnings
from score_analysis import Scores, roc, roc_with_ci, BootstrapConfig
from score_analysis.utils import invert_pl_function
rng = np.random.default_rng(15)
bad=collections.Counter(); ex={}; tot=collections.Counter()
axes=["fnr","fpr","tnr","tpr","far","frr","tar","trr"]
for trial in range(800):
    npos = int(rng.integers(1,8)); nneg = int(rng.integers(1,8))
    pos = rng.integers(-4,5,npos).astype(float); neg = rng.integers(-4,5,nneg).astype(float)
    k = int(rng.integers(0,4))*int(rng.integers(0,2)); m = int(rng.integers(0,4))*int(rng.integers(0,2))
    for sc in ("pos","neg"):
        for ec in ("pos","neg"):
            s = Scores(pos,neg,nb_easy_pos=k,nb_easy_neg=m,score_class=sc,equal_class=ec)
            for xa in axes:
                kw={}
                c=rng.integers(0,6)
                if c==0: kw=dict(nb_points=None)
                elif c==1: kw=dict(nb_points=int(rng.integers(2,12)))
                elif c==2: kw=dict(fnr=rng.uniform(0,1,3))
                elif c==3: kw=dict(fpr=rng.uniform(0,1,3), thresholds=rng.uniform(-5,5,2))
                elif c==4: kw=dict(thresholds=rng.uniform(-5,5,4))
                else: kw=dict(fnr=rng.uniform(0,1,2), fpr=rng.uniform(0,1,2), thresholds=rng.uniform(-5,5,2), nb_points=5)
                try:
                    r = roc(s, x_axis=xa, **kw)
                except Exception as e:
                    bad["exc"]+=1; ex.setdefault("exc",(pos,neg,k,m,sc,ec,xa,kw,repr(e))); continue
                tot["roc"]+=1
                if not (len(r.fnr)==len(r.fpr)==len(r.thresholds)): bad["len"]+=1
                if not (np.array_equal(r.fnr,s.fnr(r.thresholds)) and np.array_equal(r.fpr,s.fpr(r.thresholds))): bad["rates"]+=1
                x = getattr(r,xa)
                if np.any(np.diff(x)<0): bad["mono"]+=1; ex.setdefault("mono",(pos,neg,k,m,sc,ec,xa,kw,x))
                if c==0 and len(r.thresholds)!=npos+nneg: bad["npNone"]+=1
                if c==1 and len(r.thresholds)!=kw["nb_points"]: bad["np"]+=1; ex.setdefault("np",(kw,len(r.thresholds)))
                if "thresholds" in kw and not set(kw["thresholds"].tolist())<=set(r.thresholds.tolist()): bad["contains"]+=1
                if "fnr" in kw and not set(np.atleast_1d(s.threshold_at_fnr(kw["fnr"])).tolist())<=set(r.thresholds.tolist()): bad["containsfnr"]+=1
print(tot,bad)
for k_,v in ex.items(): print(k_,v)
# C17
bad=collections.Counter(); ex={}
def f_interp(x,y,z):
    return np.interp(z,x,y)
from fractions import Fraction as F
for trial in range(5000):
    n=int(rng.integers(2,8))
    x=np.sort(rng.integers(-5,6,n)).astype(float)
    y=rng.integers(-3,4,n).astype(float)
    for i in range(1,n):
        if x[i]==x[i-1]: y[i]=y[i-1]
    ts = rng.choice(np.arange(-8,9),3)/2.0
    res = invert_pl_function(x,y,ts)
    if len(res)!=3: bad["len"]+=1
    for t,sol in zip(ts,res):
        sol=np.asarray(sol)
        if sol.ndim!=1: bad["ndim"]+=1
        if np.any(np.diff(sol)<=0): bad["incr"]+=1; ex.setdefault("incr",(x,y,t,sol))
        if np.any(sol<x[0]) or np.any(sol>x[-1]): bad["range"]+=1
        crosses = (y.min()<=t<=y.max())
        if crosses:
            # every returned should solve
            for z in sol:
                # exact PL value
                j=np.searchsorted(x,z,side="right")-1; j=min(max(j,0),n-2)
                if x[j+1]==x[j]: v=y[j]
                else: v=y[j]+(y[j+1]-y[j])*(z-x[j])/(x[j+1]-x[j])
                if abs(v-t)>1e-9: bad["notsol"]+=1; ex.setdefault("notsol",(x,y,t,sol))
        else:
            if len(sol)!=1: bad["fallbacklen"]+=1
            else:
                d=np.abs(y-t); 
                if abs(np.interp(sol[0],x,y)-t)>d.min()+1e-12: bad["closest"]+=1
print("C17",bad)
for k_,v in ex.items(): print(k_,v)
