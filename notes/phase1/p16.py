import numpy as np, collections, warnings, math
from score_analysis import Scores, BootstrapConfig, roc_with_ci, ConfusionMatrix, GroupScores
warnings.simplefilter("ignore")
rng=np.random.default_rng(16); bad=collections.Counter(); ex={}
ident=BootstrapConfig(nb_samples=5, sampling_method=lambda s: s, bootstrap_method="quantile")
for trial in range(300):
    npos=int(rng.integers(2,9)); nneg=int(rng.integers(2,9))
    pos=rng.integers(-5,6,npos).astype(float); neg=rng.integers(-5,6,nneg).astype(float)
    ep=int(rng.integers(0,30))*int(rng.integers(0,2)); en=int(rng.integers(0,30))*int(rng.integers(0,2))
    sc=str(rng.choice(["pos","neg"])); ec=str(rng.choice(["pos","neg"])); alpha=float(rng.choice([0.05,0.2]))
    s=Scores(pos,neg,nb_easy_pos=ep,nb_easy_neg=en,score_class=sc,equal_class=ec)
    for cfgname,cfg in (("ident",ident),("repl",BootstrapConfig(nb_samples=30,sampling_method="replacement")),("bca",BootstrapConfig(nb_samples=30))):
        kw=[dict(),dict(nb_points=7),dict(fnr=np.array([0.1,0.5])),dict(thresholds=np.array([0.0,1.0]),fpr=np.array([0.3]))][int(rng.integers(0,4))]
        np.random.seed(trial)
        try: r=roc_with_ci(s,alpha=alpha,config=cfg,**kw)
        except Exception as e:
            bad["exc_"+cfgname]+=1; ex.setdefault("exc_"+cfgname,(pos,neg,ep,en,sc,ec,kw,repr(e))); continue
        n=len(r.thresholds)
        if r.fnr_ci.shape!=(n,2) or r.fpr_ci.shape!=(n,2): bad["shape"]+=1
        if np.isnan(r.fnr_ci).any() or np.isnan(r.fpr_ci).any(): bad["nan_"+cfgname]+=1; ex.setdefault("nan_"+cfgname,(pos,neg,ep,en,sc,ec,kw))
        if (r.fnr_ci[:,0]>r.fnr_ci[:,1]).any() or (r.fpr_ci[:,0]>r.fpr_ci[:,1]).any(): bad["order_"+cfgname]+=1
        if r.fnr_ci.min()<0 or r.fnr_ci.max()>1 or r.fpr_ci.min()<0 or r.fpr_ci.max()>1: bad["range_"+cfgname]+=1; ex.setdefault("range_"+cfgname,(pos,neg,ep,en,sc,ec,kw,r.fnr_ci.min(),r.fnr_ci.max(),r.fpr_ci.min(),r.fpr_ci.max()))
        if not (np.array_equal(r.fnr,s.fnr(r.thresholds)) and np.array_equal(r.fpr,s.fpr(r.thresholds))): bad["rates"]+=1
        if cfgname=="ident":
            # closed form: pointwise interval = [p,p] unless p exactly 0 or 1 -> rule of three with n = all samples of that class?
            def pw(p,nn_hard,nn_all):
                out=[]
                for v in p:
                    if v==0: out.append((0.0,1-math.pow(alpha,1/nn_all)))
                    elif v==1: out.append((math.pow(alpha,1/nn_all),1.0))
                    else: out.append((v,v))
                return np.array(out)
            for which,nall_p,nall_n in (("allN",npos+ep,nneg+en),("hardN",npos,nneg)):
                fnr_pw=pw(r.fnr,npos,nall_p); fpr_pw=pw(r.fpr,nneg,nall_n)
                def agg(x,dxp,dyp):
                    lo=dyp[:,0].copy(); hi=dyp[:,1].copy()
                    for j in range(len(x)):
                        ins=(dxp[:,0]<=x[j])&(x[j]<=dxp[:,1])
                        lo[j]=min(lo[j],dyp[ins,0].min(initial=lo[j])); hi[j]=max(hi[j],dyp[ins,1].max(initial=hi[j]))
                    return np.stack([lo,hi],-1)
                fpr_band=agg(r.fnr,fnr_pw,fpr_pw); fnr_band=agg(r.fpr,fpr_pw,fnr_pw)
                okk=np.allclose(fpr_band,r.fpr_ci) and np.allclose(fnr_band,r.fnr_ci)
                if not okk: bad["closed_"+which+("_easy" if ep or en else "_noeasy")]+=1; ex.setdefault("closed_"+which+("_easy" if ep or en else "_noeasy"),(pos,neg,ep,en,sc,ec,kw,alpha))
print(bad)
for k,v in ex.items(): print(k,v)
