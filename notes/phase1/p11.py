import numpy as np, collections, warnings
from score_analysis import Scores, BootstrapConfig, GroupScores
rng = np.random.default_rng(11)
bad=collections.Counter(); ex={}; tot=collections.Counter()
for trial in range(3000):
    npos = int(rng.integers(1,7)); nneg = int(rng.integers(1,7))
    if rng.integers(0,10)==0: npos=int(rng.integers(100,130)); nneg=int(rng.integers(100,130))
    pos = rng.integers(-40,50,npos).astype(float); neg = rng.integers(-40,50,nneg).astype(float)+1000
    k = int(rng.integers(0,4))*int(rng.integers(0,2)); m = int(rng.integers(0,4))*int(rng.integers(0,2))
    sc=str(rng.choice(["pos","neg"])); ec=str(rng.choice(["pos","neg"]))
    s = Scores(pos,neg,nb_easy_pos=k,nb_easy_neg=m,score_class=sc,equal_class=ec)
    meth=str(rng.choice(["replacement","single_pass","dynamic","proportion"]))
    strat=[None,"by_label"][int(rng.integers(0,2))]
    ratio=float(rng.uniform(0.05,0.95))
    cfg=BootstrapConfig(sampling_method=meth,stratified_sampling=strat,ratio=ratio)
    np.random.seed(int(rng.integers(0,2**31)))
    b=s.bootstrap_sample(cfg)
    key=(meth,strat)
    tot[key]+=1
    def fl(name): bad[(name,)+key]+=1; ex.setdefault((name,)+key,(pos.tolist()[:8],neg.tolist()[:8],k,m,b.pos.tolist()[:8],b.neg.tolist()[:8],b.nb_easy_pos,b.nb_easy_neg))
    if b.score_class!=s.score_class or b.equal_class!=s.equal_class: fl("cls")
    if not set(b.pos.tolist())<=set(pos.tolist()) or not set(b.neg.tolist())<=set(neg.tolist()): fl("membership")
    if np.any(np.diff(b.pos)<0) or np.any(np.diff(b.neg)<0): fl("sorted")
    if len(b.pos)==0 or len(b.neg)==0: fl("empty")
    resolved = meth if meth!="dynamic" else ("single_pass" if min(npos,nneg)>=100 else "replacement")
    if resolved=="replacement":
        if len(b.pos)+len(b.neg)+b.nb_easy_pos+b.nb_easy_neg != npos+nneg+k+m: fl("total")
        if strat=="by_label" and (len(b.pos),len(b.neg),b.nb_easy_pos,b.nb_easy_neg)!=(npos,nneg,k,m): fl("strata")
    if resolved=="single_pass" and strat=="by_label" and (b.nb_easy_pos,b.nb_easy_neg)!=(k,m): fl("easystrata")
    if meth=="proportion":
        if len(b.pos)!=max(int(ratio*npos),1) or len(b.neg)!=max(int(ratio*nneg),1): fl("propsize")
        # without replacement: multiset inclusion
        cp=collections.Counter(pos.tolist()); cb=collections.Counter(b.pos.tolist())
        if any(cb[x]>cp[x] for x in cb): fl("propmultiset")
print(tot); print(bad)
for k_,v in ex.items(): print(k_,v)
