import numpy as np, collections, warnings
from score_analysis import Scores
rng = np.random.default_rng(8)
bad=collections.Counter(); ex={}; tot=collections.Counter()
mets=["tpr","fnr","tnr","fpr","topr","tonr"]
swapmap={"fpr":"fnr","fnr":"fpr","tpr":"tnr","tnr":"tpr","topr":"tonr","tonr":"topr"}
def close(a,b,tol=1e-9): return abs(a-b)<=tol*max(1,abs(a),abs(b))
for trial in range(1500):
    npos = int(rng.integers(1,7)); nneg = int(rng.integers(1,7))
    ties = rng.integers(0,2)
    if ties:
        pos = rng.integers(-4,5,npos).astype(float); neg = rng.integers(-4,5,nneg).astype(float)
    else:
        allv = rng.choice(np.arange(-40,40), size=npos+nneg, replace=False).astype(float)/4
        pos, neg = allv[:npos], allv[npos:]
    k = int(rng.integers(0,4))*int(rng.integers(0,2)); m = int(rng.integers(0,4))*int(rng.integers(0,2))
    a = float(rng.choice([0.5,1,2,3.25])); b=float(rng.choice([-3,0,1.5,10]))
    for sc in ("pos","neg"):
        for ec in ("pos","neg"):
            s = Scores(pos,neg,nb_easy_pos=k,nb_easy_neg=m,score_class=sc,equal_class=ec)
            sw = s.swap()
            ng = Scores(-pos,-neg,nb_easy_pos=k,nb_easy_neg=m,score_class="neg" if sc=="pos" else "pos",equal_class=ec)
            af = Scores(a*pos+b,a*neg+b,nb_easy_pos=k,nb_easy_neg=m,score_class=sc,equal_class=ec)
            for t in list(rng.uniform(-12,12,3))+list(pos[:2])+list(neg[:2]):
                for mt in mets:
                    tot["swap"]+=1
                    if getattr(s,mt)(t)!=getattr(sw,swapmap[mt])(t): bad["swap"]+=1; ex.setdefault("swap",(pos,neg,k,m,sc,ec,t,mt))
                tot["negcm"]+=1
                if not np.array_equal(s.cm(t).matrix, ng.cm(-t).matrix): bad["negcm"]+=1; ex.setdefault("negcm",(pos,neg,k,m,sc,ec,t))
                tot["affcm"]+=1
                if not np.array_equal(s.cm(t).matrix, af.cm(a*t+b).matrix): bad["affcm"]+=1
            for mt in mets:
                for r in list(rng.uniform(-0.1,1.1,3))+[0.0,0.5,1.0]:
                    t0 = getattr(s,"threshold_at_"+mt)(r)
                    tot["negthr"]+=1
                    if not close(-t0, getattr(ng,"threshold_at_"+mt)(r)): bad["negthr_"+mt]+=1; ex.setdefault("negthr_"+mt,(pos.tolist(),neg.tolist(),k,m,sc,ec,r,t0,getattr(ng,"threshold_at_"+mt)(r)))
                    tot["affthr"]+=1
                    if not close(a*t0+b, getattr(af,"threshold_at_"+mt)(r)): bad["affthr_"+mt]+=1; ex.setdefault("affthr_"+mt,(pos.tolist(),neg.tolist(),k,m,sc,ec,a,b,r,t0,getattr(af,"threshold_at_"+mt)(r)))
            t0,e0 = s.eer(); t1,e1 = af.eer(); tot["affeer"]+=1
            if not (close(a*t0+b,t1,1e-7) and close(e0,e1,1e-7)): bad["affeer"]+=1; ex.setdefault("affeer",(pos.tolist(),neg.tolist(),k,m,sc,ec,a,b,t0,e0,t1,e1))
            if not ties:
                t2,e2 = ng.eer(); tot["negeer"]+=1
                if not (close(-t0,t2,1e-7) and close(e0,e2,1e-7)): bad["negeer"]+=1; ex.setdefault("negeer",(pos.tolist(),neg.tolist(),k,m,sc,ec,t0,e0,t2,e2))
            tot["affauc"]+=1
            if not close(s.auc(),af.auc()): bad["affauc"]+=1
print(tot); print(bad)
for k_,v in ex.items(): print(k_,v)
