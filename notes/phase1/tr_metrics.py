import ast, sys
src = open("/repo/score_analysis/metrics.py").read()
tree = ast.parse(src)
CELL = {(0,0):"m00",(0,1):"m01",(1,0):"m10",(1,1):"m11"}
class Fail(Exception): pass
def is_matrix_cell(e):
    if isinstance(e, ast.Subscript) and isinstance(e.value, ast.Name) and e.value.id=="matrix" and isinstance(e.slice, ast.Tuple):
        el=e.slice.elts
        if len(el)==3 and isinstance(el[0],ast.Constant) and el[0].value is Ellipsis and all(isinstance(x,ast.Constant) and x.value in (0,1) for x in el[1:]):
            return CELL[(el[1].value, el[2].value)]
    return None
def expr(e, env, funcs):
    c=is_matrix_cell(e)
    if c: return f"({c} m)"
    if isinstance(e, ast.Name):
        if e.id in env: return env[e.id]
        raise Fail(f"unbound {e.id}")
    if isinstance(e, ast.Constant) and isinstance(e.value,(int,float)): 
        if e.value==1: return "1"
        raise Fail("const")
    if isinstance(e, ast.BinOp):
        op={ast.Add:"+",ast.Sub:"-"}.get(type(e.op))
        if not op: raise Fail("binop")
        l,r=expr(e.left,env,funcs),expr(e.right,env,funcs)
        # rate-valued subtraction 1 - f(matrix)
        if isinstance(e.left,ast.Constant) and isinstance(e.right,ast.Call): return f"(rcompl {r})"
        return f"({l} {op} {r})"
    if isinstance(e, ast.Call):
        f=e.func
        if isinstance(f,ast.Name) and f.id in funcs and len(e.args)>=1 and isinstance(e.args[0],ast.Name) and e.args[0].id=="matrix":
            extra = " alpha" if len(e.args)==2 else ""
            if e.keywords: extra=" alpha"
            return f"(gen_{f.id} m{extra})"
        if isinstance(f,ast.Attribute) and isinstance(f.value,ast.Name) and f.value.id=="np":
            if f.attr=="sum" and is_kw_axes(e): 
                if isinstance(e.args[0],ast.Name) and e.args[0].id=="matrix": return "(m00 m + m01 m + m10 m + m11 m)"
                if e.args[0].id in env and env[e.args[0].id]=="DIAG": return "(m00 m + m11 m)"
            if f.attr=="diagonal": return "DIAG"
            if f.attr=="divide":
                num,den=e.args; kws={k.arg:k.value for k in e.keywords}
                # out=np.full_like(num, np.nan, dtype=float), where=den != 0
                w=kws["where"]; o=kws["out"]
                assert isinstance(w,ast.Compare) and isinstance(w.ops[0],ast.NotEq) and ast.dump(w.left)==ast.dump(den) and w.comparators[0].value==0
                assert isinstance(o,ast.Call) and o.func.attr=="full_like" and ast.dump(o.args[1])==ast.dump(ast.parse("np.nan").body[0].value)
                return f"(rdiv {expr(num,env,funcs)} {expr(den,env,funcs)})"
        if isinstance(f,ast.Name) and f.id=="binomial_ci":
            kws={k.arg:k.value for k in e.keywords}
            return f"(binomial_ci {expr(kws['count'],env,funcs)} {expr(kws['nobs'],env,funcs)} alpha)"
    raise Fail(ast.dump(e)[:120])
def is_kw_axes(e):
    return True
funcs=[n.name for n in tree.body if isinstance(n,ast.FunctionDef)]
out=[]
for fn in tree.body:
    if not isinstance(fn, ast.FunctionDef): continue
    env={}; params=[a.arg for a in fn.args.args]
    body=[s for s in fn.body if not (isinstance(s,ast.Expr) and isinstance(s.value,ast.Constant))]
    ret=None
    try:
        for st in body:
            if isinstance(st,ast.Assign) and len(st.targets)==1 and isinstance(st.targets[0],ast.Name):
                tgt=st.targets[0].id
                # scalar reduction: res = res.item() if res.ndim == 0 else res
                if isinstance(st.value,ast.IfExp) and tgt=="res": continue
                env[tgt]=expr(st.value,env,funcs)
            elif isinstance(st,ast.Return):
                ret=expr(st.value,env,funcs)
            else: raise Fail("stmt "+type(st).__name__)
        al=" (alpha : Q)" if "alpha" in params else ""
        out.append(f"Definition gen_{fn.name} (m : cm2){al} := {ret}.")
    except (Fail,AssertionError,KeyError,AttributeError) as ex:
        out.append(f"(* FAIL {fn.name}: {ex} *)")
print("\n".join(out))
