import numpy as np, itertools, warnings
from score_analysis import Scores
rng = np.random.default_rng(1)
metrics = ["tpr","fnr","tnr","fpr","topr","tonr"]
bad = {}
cnt=0
for trial in range(20000):
    npos = int(rng.integers(1,12)); nneg = int(rng.integers(1,12))
    kind = rng.integers(0,3)
    if kind==0:
        pos = rng.integers(-5,6,npos).astype(float); neg = rng.integers(-5,6,nneg).astype(float)
    elif kind==1:
        pos = rng.normal(0,1,npos); neg = rng.normal(0,1,nneg)
    else:
        pos = np.round(rng.normal(0,1,npos),1); neg = np.round(rng.normal(0,1,nneg),1)
    ep = int(rng.integers(0,4))*int(rng.integers(0,2)); en = int(rng.integers(0,4))*int(rng.integers(0,2))
    for sc in ("pos","neg"):
        for ec in ("pos","neg"):
            s = Scores(pos,neg,nb_easy_pos=ep,nb_easy_neg=en,score_class=sc,equal_class=ec)
            # achievable extremes by evaluating at -inf/+inf
            for m in metrics:
                vals = [getattr(s,m)(-np.inf), getattr(s,m)(np.inf)]
                lo, hi = min(vals), max(vals)
                for meth in ("linear","lower","higher"):
                    for r, want in ((0.0,lo),(-0.3,lo),(1.0,hi),(1.7,hi)):
                        t = getattr(s,"threshold_at_"+m)(r, method=meth)
                        got = getattr(s,m)(t)
                        cnt+=1
                        if got != want:
                            key=(m,sc,ec,meth,r)
                            if key not in bad:
                                bad[key]=(pos.tolist(),neg.tolist(),ep,en,t,got,want)
print(cnt, len(bad))
for k,v in list(bad.items())[:40]:
    print(k, v)
