import numpy as np, math, collections, sys
from fractions import Fraction as F
from score_analysis import Scores
sys.argv=[sys.argv[0]]
exec(open("ref_thr.py").read().split("def to_qe")[0])   # class M
def lt(a,b): return a<b   # tuples compare lexicographically: (value, eps)
def sub_sign(a,b):  # sign of a-b for qe
    return (a>b)-(a<b)
def cm(m,t):  # t qe ; returns tp,fn,fp,tn
    def below(arr,side):
        if side=="left": return sum(1 for x in arr if (x,0)<t)
        return sum(1 for x in arr if (x,0)<=t)
    if m.sc=="pos": side="left" if m.ec=="pos" else "right"
    else: side="right" if m.ec=="pos" else "left"
    pb=below(m.pos,side); nb=below(m.neg,side); pa=len(m.pos)-pb; na=len(m.neg)-nb
    if m.sc=="pos": tp,fn,fp,tn=pa,pb,na,nb
    else: tp,fn,fp,tn=pb,pa,nb,na
    return tp+m.ep,fn,fp,tn+m.en
def rate(m,name,t):
    tp,fn,fp,tn=cm(m,t)
    return {"tpr":F(tp,tp+fn),"fnr":F(fn,tp+fn),"tnr":F(tn,fp+tn),"fpr":F(fp,fp+tn)}[name]
def qsub(a,b): return (a[0]-b[0],a[1]-b[1])
def eer(m):
    if m.pos[0]>=m.neg[-1] and m.sc=="pos": return ((m.pos[0]+m.neg[-1])/2,0),F(0)
    if m.pos[-1]<=m.neg[0] and m.sc=="neg": return ((m.pos[-1]+m.neg[0])/2,0),F(0)
    d0=qsub(m.thr("fpr",0),m.thr("fnr",0))
    sign=-( (d0>(0,0))-(d0<(0,0)) )   # only sign matters? code: sign = -(difference) (a real number), y = sign*y ; sign of y is what is used
    def f(x):
        d=qsub(m.thr("fpr",x),m.thr("fnr",x)); sg=(d>(0,0))-(d<(0,0)); return sign*sg
    max_eer=min(m.hard_pos_ratio(),m.hard_neg_ratio())
    if f(max_eer)<0:
        hp,hn=m.hard_pos_ratio(),m.hard_neg_ratio()
        if abs(float(hp)-float(hn))<=1e-8+1e-5*abs(float(hn)):
            a,b=m.thr("fpr",max_eer),m.thr("fnr",max_eer); return ((a[0]+b[0])/2,0),max_eer
        elif hp<hn: return m.thr("fpr",hp),hp
        else: return m.thr("fnr",hn),hn
    def root(first):
        xa,xe=F(0),max_eer
        assert f(xa)<=0<=f(xe)
        while not abs(xa-xe)<F(1,10**10):
            xm=(xa+xe)/2; v=f(xm)
            if v<0: xa=xm
            elif v>0: xe=xm
            else:
                if first: xe=xm
                else: xa=xm
        return (xa+xe)/2
    e=(root(True)+root(False))/2
    return m.thr("fpr",e),e
def auc(m,lo=F(0),up=F(1),xa="fpr",ya="tpr"):
    pts=sorted([(x,-1) for x in m.pos+m.neg]+[(x,1) for x in m.pos+m.neg])
    x=[rate(m,xa,t) for t in pts]; y=[rate(m,ya,t) for t in pts]
    if x[-1]<x[0]: x=x[::-1]; y=y[::-1]
    left=sum(1 for v in x if v<lo); right=sum(1 for v in x if v<=up)
    left=min(left,len(y)-1); right=max(right,1)
    xs=[lo]+x[left:right]+[up]; ys=[y[left]]+y[left:right]+[y[right-1]]
    return abs(sum((xs[i+1]-xs[i])*(ys[i]+ys[i+1])/2 for i in range(len(xs)-1)))
rng=np.random.default_rng(5); st=collections.Counter(); ex={}
for trial in range(400):
    npos=int(rng.integers(1,8)); nneg=int(rng.integers(1,8))
    ties=rng.integers(0,2)
    if ties: pos=rng.integers(-6,7,npos)/2.0; neg=rng.integers(-6,7,nneg)/2.0
    else:
        allv=rng.choice(np.arange(-40,40),size=npos+nneg,replace=False)/4.0; pos,neg=allv[:npos],allv[npos:]
    ep=int(rng.integers(0,4))*int(rng.integers(0,2)); en=int(rng.integers(0,4))*int(rng.integers(0,2))
    for sc in ("pos","neg"):
        for ec in ("pos","neg"):
            s=Scores(pos,neg,nb_easy_pos=ep,nb_easy_neg=en,score_class=sc,equal_class=ec); m=M(pos.tolist(),neg.tolist(),ep,en,sc,ec)
            t,e=s.eer(); (tm,em)=eer(m); st["eer"]+=1
            if abs(float(em)-e)>1e-9 or abs(float(tm[0])-t)>1e-6*max(1,abs(t)): st["eer_diff"]+=1; ex.setdefault("eer",(pos.tolist(),neg.tolist(),ep,en,sc,ec,t,e,float(tm[0]),tm[1],float(em)))
            lo,up=sorted([F(int(rng.integers(0,17)),16),F(int(rng.integers(0,17)),16)])
            for xa,ya in (("fpr","tpr"),("tnr","fnr"),("tpr","fpr")):
                for (l,u) in ((F(0),F(1)),(lo,up)):
                    a=s.auc(float(l),float(u),x_axis=xa,y_axis=ya); am=auc(m,l,u,xa,ya); st["auc"]+=1
                    if abs(a-float(am))>1e-12: st["auc_diff"]+=1; ex.setdefault("auc",(pos.tolist(),neg.tolist(),ep,en,sc,ec,xa,ya,float(l),float(u),a,float(am)))
print(st)
for k,v in ex.items(): print(k,v)
