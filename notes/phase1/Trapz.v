(* Exploration: core lemmas for C07 (DESIGN Appendix A.3). Not framework code. *)
From Coq Require Import QArith List Lia Lqa Setoid Morphisms.
Import ListNotations.
Open Scope Q_scope.


Lemma last_default_irrel (T : Type) (l : list T) (b a a' : T) : last (b :: l) a = last (b :: l) a'.
Proof. revert b; induction l as [|c r IH]; intros b; [reflexivity|]. change (last (c :: r) a = last (c :: r) a'). apply IH. Qed.

(* trapezoid sum over vertices given as two functions of a point, along a list of points *)
Section Trapz.
  Variable T : Type.
  Fixpoint trapz (x y : T -> Q) (pts : list T) : Q :=
    match pts with
    | a :: ((b :: _) as r) => (x b - x a) * (y a + y b) * (1#2) + trapz x y r
    | _ => 0
    end.

  Lemma trapz_cons2 x y a b r :
    trapz x y (a :: b :: r) = (x b - x a) * (y a + y b) * (1#2) + trapz x y (b :: r).
  Proof. reflexivity. Qed.

  (* linearity in x *)
  Lemma trapz_add_x x1 x2 y pts :
    trapz (fun t => x1 t + x2 t) y pts == trapz x1 y pts + trapz x2 y pts.
  Proof.
    induction pts as [|a [|b r] IH]; simpl; try lra.
    simpl in IH. rewrite IH. lra.
  Qed.
  Lemma trapz_scale_x c x y pts :
    trapz (fun t => c * x t) y pts == c * trapz x y pts.
  Proof.
    induction pts as [|a [|b r] IH]; simpl; try lra.
    simpl in IH. rewrite IH. lra.
  Qed.
  Lemma trapz_add_y x y1 y2 pts :
    trapz x (fun t => y1 t + y2 t) pts == trapz x y1 pts + trapz x y2 pts.
  Proof.
    induction pts as [|a [|b r] IH]; simpl; try lra.
    simpl in IH. rewrite IH. lra.
  Qed.
  Lemma trapz_scale_y c x y pts :
    trapz x (fun t => c * y t) pts == c * trapz x y pts.
  Proof.
    induction pts as [|a [|b r] IH]; simpl; try lra.
    simpl in IH. rewrite IH. lra.
  Qed.
  (* constant y: telescoping *)
  Lemma trapz_const_y x c a pts :
    trapz x (fun _ => c) (a :: pts) == c * (x (last pts a) - x a).
  Proof.
    revert a; induction pts as [|b r IH]; intros a; [simpl; lra|].
    rewrite trapz_cons2, (IH b).
    destruct r as [|b' r']; [simpl; lra|].
    change (last (b :: b' :: r') a) with (last (b' :: r') a).
    rewrite (last_default_irrel T r' b' a b). lra.
  Qed.

  (* x constant on a list: no area *)
  Lemma trapz_flat_x x y pts c :
    Forall (fun t => x t == c) pts -> trapz x y pts == 0.
  Proof.
    induction 1 as [|a r Ha Hr IH]; simpl; [lra|].
    destruct r as [|b r']; [lra|].
    inversion Hr as [|? ? Hb _]; subst. rewrite IH, Ha, Hb. lra.
  Qed.

  (* the step lemma: x is 1 on l1, 0 on l2 *)
  Lemma trapz_step x y l1 a b l2 :
    Forall (fun t => x t == 1) (l1 ++ [a]) ->
    Forall (fun t => x t == 0) (b :: l2) ->
    trapz x y (l1 ++ a :: b :: l2) == - ((y a + y b) * (1#2)).
  Proof.
    intros H1 H0.
    induction l1 as [|c l1 IH].
    - simpl in *. inversion H1 as [|? ? Ha _]; subst.
      inversion H0 as [|? ? Hb _]; subst.
      rewrite (trapz_flat_x x y (b :: l2) 0 H0). rewrite Ha, Hb. lra.
    - simpl in H1. inversion H1 as [|? ? Hc H1']; subst.
      specialize (IH H1').
      destruct l1 as [|d l1'].
      + simpl in *. inversion H1' as [|? ? Ha _]; subst.
        rewrite IH, Hc, Ha. lra.
      + simpl in *. inversion H1' as [|? ? Hd _]; subst.
        rewrite IH, Hc, Hd. lra.
  Qed.
End Trapz.

(* integration by parts for the trapezoid rule: exchanging the axes *)
Lemma trapz_swap_axes (T : Type) (x y : T -> Q) a pts :
  trapz T x y (a :: pts) + trapz T y x (a :: pts) == x (last pts a) * y (last pts a) - x a * y a.
Proof.
  revert a; induction pts as [|b r IH]; intros a; [simpl; lra|].
  rewrite !trapz_cons2. specialize (IH b).
  destruct r as [|b' r']; [simpl in *; lra|].
  change (last (b :: b' :: r') a) with (last (b' :: r') a).
  rewrite (last_default_irrel T r' b' a b). lra.
Qed.
Print Assumptions trapz_step.
Print Assumptions trapz_swap_axes.
