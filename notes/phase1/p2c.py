# C02 on scores that are distinct but only 1-3 ulp apart: can rounding of la*a+(1-la)*b skip a sample?
import numpy as np, collections
from score_analysis import Scores
rng=np.random.default_rng(33); worst=collections.defaultdict(float); ex={}; tot=0
mets=["tpr","fnr","tnr","fpr","topr","tonr"]
for trial in range(3000):
    npos=int(rng.integers(2,10)); nneg=int(rng.integers(2,10))
    base=float(rng.choice([1.0,0.3,-2.7,1234.5,1e-3,0.7]))
    step=int(rng.integers(1,4))
    ulp=np.spacing(abs(base))
    allv=base+ulp*step*rng.permutation(npos+nneg+3)[:npos+nneg]
    if len(set(allv.tolist()))<npos+nneg: continue
    pos,neg=allv[:npos],allv[npos:]
    ep=int(rng.integers(0,4))*int(rng.integers(0,2)); en=int(rng.integers(0,4))*int(rng.integers(0,2))
    for sc in ("pos","neg"):
        for ec in ("pos","neg"):
            s=Scores(pos,neg,nb_easy_pos=ep,nb_easy_neg=en,score_class=sc,equal_class=ec)
            for mt in mets:
                f=getattr(s,mt); Npop={"tpr":npos+ep,"fnr":npos+ep,"tnr":nneg+en,"fpr":nneg+en}.get(mt,npos+nneg+ep+en)
                lo,hi=sorted([f(-np.inf),f(np.inf)])
                for r in rng.uniform(0,1,4):
                    t=getattr(s,"threshold_at_"+mt)(r); rc=min(max(r,lo),hi); tot+=1
                    err=abs(f(t)-rc)*Npop
                    k=(mt,)
                    if err>worst[k]: worst[k]=err; ex[k]=(pos.tolist(),neg.tolist(),ep,en,sc,ec,r,t,f(t))
print(tot); 
for k in sorted(worst): print(k, round(worst[k],4), ex[k] if worst[k]>1+1e-9 else "")
