"""Prototype: conservative alias/effect summary of numpy-style Python functions.
Abstract value of an expression = set of 'roots' it may alias: {'IN:<param>', 'SELF:<field>', 'FRESH'}.
In-place writes: Subscript-store, AugAssign on a name whose value may be a (mutable) array alias.
"""
import ast, sys
ALIAS_CALLS = {"np.asarray","np.reshape","np.squeeze","np.moveaxis","np.expand_dims","np.atleast_1d","np.diagonal","np.ravel"}  # may return view
FRESH_CALLS = {"np.sort","np.concatenate","np.searchsorted","np.empty","np.zeros","np.full_like","np.zeros_like","np.ones_like","np.stack","np.nextafter","np.floor","np.ceil",
               "np.maximum","np.minimum","np.divide","np.sum","np.nansum","np.abs","np.where","np.linspace","np.arange","np.repeat","np.copy","np.array","np.unique","np.argsort","np.argmin",
               "np.nanquantile","np.quantile","np.nonzero","np.isnan","np.isfinite","np.isclose","np.isscalar","np.sqrt","np.any","np.all","np.min","np.max","np.median","np.take","np.trapezoid","np.trapz",
               "len","int","float","max","min","abs","sorted","set","list","zip","range","enumerate","isinstance","callable","getattr","math.pow","BinaryLabel","ConfusionMatrix","Scores","GroupScores","BootstrapConfig","ROCCurve","ValueError","TypeError",
               "np.random.binomial","np.random.poisson","np.random.choice","np.random.normal","scipy.stats.norm.ppf","scipy.stats.norm.cdf","scipy.stats.norm.isf","scipy.stats.norm.sf","scipy.stats.ksone.ppf"}
FRESH_METHODS = {"astype","copy","item","sum","std","tolist","keys","values","flatten","cumsum","mean","min","max","get","append"}
VIEW_METHODS = {"reshape","ravel","squeeze","T","transpose","view"}
def dotted(f):
    if isinstance(f,ast.Name): return f.id
    if isinstance(f,ast.Attribute):
        b=dotted(f.value); return None if b is None else b+"."+f.attr
    return None
class Ana:
    def __init__(self, fn, clsname, known_methods):
        self.fn=fn; self.env={}; self.writes=[]; self.stores=[]; self.unknown=[]; self.known=known_methods
        for a in fn.args.args+fn.args.kwonlyargs:
            if a.arg=="self": continue
            self.env[a.arg]={"IN:"+a.arg}
    def val(self,e):
        if e is None: return set()
        if isinstance(e,ast.Name): return set(self.env.get(e.id,{"FRESH"}))  # globals/constants
        if isinstance(e,ast.Constant): return {"FRESH"}
        if isinstance(e,ast.Attribute):
            if isinstance(e.value,ast.Name) and e.value.id=="self": return {"SELF:"+e.attr}
            if e.attr in ("shape","size","ndim","dtype","value","name"): return {"FRESH"}
            if e.attr in VIEW_METHODS: return self.val(e.value)
            return self.val(e.value)   # attribute of object: conservatively alias
        if isinstance(e,(ast.BinOp,ast.UnaryOp,ast.Compare,ast.BoolOp,ast.JoinedStr,ast.ListComp,ast.Dict,ast.DictComp,ast.Lambda)): return {"FRESH"}
        if isinstance(e,ast.IfExp): return self.val(e.body)|self.val(e.orelse)
        if isinstance(e,(ast.Tuple,ast.List)):
            r=set()
            for x in e.elts: r|=self.val(x)
            return r
        if isinstance(e,ast.Starred): return self.val(e.value)
        if isinstance(e,ast.Subscript):
            # basic slicing -> view; advanced (index is a Name bound to array / list / compare) -> copy. Conservative: view unless index obviously advanced.
            idx=e.slice
            def adv(i):
                return isinstance(i,(ast.Compare,ast.List,ast.BoolOp,ast.UnaryOp)) or (isinstance(i,ast.Name) and i.id.endswith(("_idx","idx","ind","mask","inside","fin")))
            if adv(idx) or (isinstance(idx,ast.Tuple) and any(adv(i) for i in idx.elts)): return {"FRESH"}
            return self.val(e.value)
        if isinstance(e,ast.Call):
            name=dotted(e.func)
            if name in ALIAS_CALLS:
                r=set()
                for a in e.args: r|=self.val(a)
                return r or {"FRESH"}
            if name in FRESH_CALLS: return {"FRESH"}
            if isinstance(e.func,ast.Attribute):
                m=e.func.attr
                if isinstance(e.func.value,ast.Name) and e.func.value.id=="self":
                    return {"FRESH"} if m in self.known else self._unk(name)
                if m in FRESH_METHODS: return {"FRESH"}
                if m in VIEW_METHODS: return self.val(e.func.value)
                if m in self.known: return {"FRESH"}   # method of another Scores-like object: analysed separately
            if isinstance(e.func,ast.Name) and e.func.id in self.env: return self._unk(name)  # calling a callable parameter (metric/sampler): user code
            return self._unk(name)
        return self._unk(type(e).__name__)
    def _unk(self,what):
        self.unknown.append(what); return {"FRESH"}
    def assign(self,t,v):
        if isinstance(t,ast.Name): self.env[t.id]=set(v)
        elif isinstance(t,(ast.Tuple,ast.List)):
            for x in t.elts: self.assign(x,v)
        elif isinstance(t,ast.Attribute) and isinstance(t.value,ast.Name) and t.value.id=="self":
            self.stores.append(t.attr)
        elif isinstance(t,ast.Subscript):
            tgt=self.val(t.value); self.writes.append((ast.unparse(t), tgt))
        else: self._unk("assign "+type(t).__name__)
    def stmts(self,body):
        for st in body:
            if isinstance(st,ast.Assign):
                v=self.val(st.value)
                # tuple-to-tuple precise
                for t in st.targets:
                    if isinstance(t,ast.Tuple) and isinstance(st.value,ast.Tuple) and len(t.elts)==len(st.value.elts):
                        vs=[self.val(x) for x in st.value.elts]
                        for a,b in zip(t.elts,vs): self.assign(a,b)
                    else: self.assign(t,v)
            elif isinstance(st,ast.AugAssign):
                if isinstance(st.target,ast.Name):
                    tgt=self.env.get(st.target.id,{"FRESH"}); self.writes.append((ast.unparse(st),set(tgt)))
                else: self.writes.append((ast.unparse(st), self.val(st.target.value) if isinstance(st.target,ast.Subscript) else {"?"}))
            elif isinstance(st,ast.If):
                self.val(st.test)
                e0=dict(self.env); self.stmts(st.body); e1=self.env; self.env=dict(e0); self.stmts(st.orelse)
                for k in set(e1)|set(self.env): self.env[k]=set(e1.get(k,set()))|set(self.env.get(k,set()))
            elif isinstance(st,(ast.For,ast.While)):
                if isinstance(st,ast.For): self.assign(st.target,self.val(st.iter))
                self.stmts(st.body); self.stmts(st.body)
            elif isinstance(st,ast.Try):
                self.stmts(st.body)
                for h in st.handlers: self.stmts(h.body)
            elif isinstance(st,ast.Return): self.val(st.value)
            elif isinstance(st,ast.Expr): self.val(st.value)
            elif isinstance(st,ast.FunctionDef): 
                sub=Ana(st,None,self.known); sub.env.update({k:v for k,v in self.env.items() if k not in sub.env}); sub.stmts(st.body)
                self.writes+=sub.writes; self.stores+=sub.stores; self.unknown+=sub.unknown
            elif isinstance(st,(ast.Raise,ast.Pass,ast.Assert)): pass
            else: self._unk("stmt "+type(st).__name__)
for path in sys.argv[1:]:
    tree=ast.parse(open(path).read())
    funcs=[]
    for n in tree.body:
        if isinstance(n,ast.FunctionDef): funcs.append((None,n))
        if isinstance(n,ast.ClassDef):
            for m in n.body:
                if isinstance(m,ast.FunctionDef): funcs.append((n.name,m))
    known={f.name for _,f in funcs}|{"cm","tpr","fnr","tnr","fpr","topr","tonr","threshold_at_tpr","threshold_at_fnr","threshold_at_tnr","threshold_at_fpr","bootstrap_sample","bootstrap_metric","bootstrap_ci","one_vs_all","group_cm","_sample_indices","swap","eer","auc"}
    for cls,f in funcs:
        a=Ana(f,cls,known); a.stmts(f.body)
        bad=[(w,t) for w,t in a.writes if any(x.startswith(("IN:","SELF:")) for x in t)]
        stores=[s for s in a.stores if f.name!="__init__" and not f.name.endswith("setter")]
        flag = "UNSAFE" if bad or stores else "safe"
        if bad or stores or a.unknown:
            print(f"{path.split('/')[-1]}:{cls}.{f.name}: {flag} writes_to_inputs={bad} stores={stores} unknown={sorted(set(map(str,a.unknown)))}")
