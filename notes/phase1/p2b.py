# C02 remaining clauses on the real code: ties bracket, lower/higher coherence, linear convexity, monotone in r
import numpy as np, collections
from score_analysis import Scores
rng=np.random.default_rng(22); bad=collections.Counter(); ex={}; tot=collections.Counter()
mets=["tpr","fnr","tnr","fpr","topr","tonr"]
incr_in_t={"tpr":False,"fnr":True,"tnr":True,"fpr":False,"topr":False,"tonr":True}  # for score_class=pos
for trial in range(2500):
    npos=int(rng.integers(1,9)); nneg=int(rng.integers(1,9))
    pos=rng.integers(-3,4,npos).astype(float); neg=rng.integers(-3,4,nneg).astype(float)   # heavy ties
    ep=int(rng.integers(0,4))*int(rng.integers(0,2)); en=int(rng.integers(0,4))*int(rng.integers(0,2))
    for sc in ("pos","neg"):
        for ec in ("pos","neg"):
            s=Scores(pos,neg,nb_easy_pos=ep,nb_easy_neg=en,score_class=sc,equal_class=ec)
            for mt in mets:
                f=getattr(s,mt); thr=getattr(s,"threshold_at_"+mt)
                rel={"tpr":pos,"fnr":pos,"tnr":neg,"fpr":neg}.get(mt,np.concatenate([pos,neg]))
                Npop={"tpr":npos+ep,"fnr":npos+ep,"tnr":nneg+en,"fpr":nneg+en}.get(mt,npos+nneg+ep+en)
                lo,hi=sorted([f(-np.inf),f(np.inf)])
                rs=np.sort(np.concatenate([rng.uniform(-0.1,1.1,4),[k/Npop for k in rng.integers(0,Npop+1,2)]]))
                tl=thr(rs,method="lower"); th=thr(rs,method="higher"); tm=thr(rs,method="linear")
                inc = incr_in_t[mt] == (sc=="pos")   # metric increasing in threshold?
                for i,r in enumerate(rs):
                    rc=min(max(r,lo),hi); t=tm[i]
                    below=f(np.nextafter(t,-np.inf)); above=f(np.nextafter(t,np.inf))
                    a,b=min(below,above),max(below,above)
                    tot["bracket"]+=1
                    if not (a-1/Npop-1e-12<=rc<=b+1/Npop+1e-12): bad["bracket"]+=1; ex.setdefault("bracket",(pos.tolist(),neg.tolist(),ep,en,sc,ec,mt,r,t,below,above))
                    # lower/higher are samples or sentinel
                    sent={np.nextafter(rel.min(),-np.inf),np.nextafter(rel.max(),np.inf)}
                    for nm,tt in (("lower",tl[i]),("higher",th[i])):
                        tot["sample"]+=1
                        if tt not in set(rel.tolist())|sent: bad["sample_"+nm]+=1
                    tot["order"]+=1
                    if f(tl[i])>f(th[i])+1e-15: bad["metric_order"]+=1; ex.setdefault("metric_order",(pos.tolist(),neg.tolist(),ep,en,sc,ec,mt,r,tl[i],th[i],f(tl[i]),f(th[i])))
                    a2,b2=min(tl[i],th[i]),max(tl[i],th[i]); eps=64*np.spacing(max(abs(rel.min()),abs(rel.max()),1e-300))
                    if not (a2-eps<=t<=b2+eps): bad["linear_between"]+=1; ex.setdefault("linear_between",(pos.tolist(),neg.tolist(),ep,en,sc,ec,mt,r,tl[i],t,th[i]))
                # monotone in r
                d=np.diff(tm); tot["mono"]+=1
                eps=64*np.spacing(max(abs(rel.min()),abs(rel.max()),1e-300))
                if not (np.all(d>=-eps) if inc else np.all(d<=eps)): bad["mono"]+=1; ex.setdefault("mono",(pos.tolist(),neg.tolist(),ep,en,sc,ec,mt,rs.tolist(),tm.tolist()))
print(tot); print(bad)
for k,v in ex.items(): print(k,v)
