import numpy as np, collections
from score_analysis import Scores
rng = np.random.default_rng(6)
bad=collections.Counter(); ex={}; tot=collections.Counter()
mets=["tpr","fnr","tnr","fpr","topr","tonr"]
for trial in range(2500):
    npos = int(rng.integers(1,7)); nneg = int(rng.integers(1,7))
    ties = rng.integers(0,2)
    if ties:
        pos = rng.integers(-4,5,npos).astype(float); neg = rng.integers(-4,5,nneg).astype(float)
    else:
        allv = rng.choice(np.arange(-40,40), size=npos+nneg, replace=False).astype(float)/4
        pos, neg = allv[:npos], allv[npos:]
    k = int(rng.integers(0,4)); m = int(rng.integers(0,4))
    lo = min(pos.min(),neg.min()); hi=max(pos.max(),neg.max())
    for sc in ("pos","neg"):
        for ec in ("pos","neg"):
            s = Scores(pos,neg,nb_easy_pos=k,nb_easy_neg=m,score_class=sc,equal_class=ec)
            # materialised: easy pos beyond all on own side
            if sc=="pos": mp = np.concatenate([pos,[hi+10+i for i in range(k)]]); mn=np.concatenate([neg,[lo-10-i for i in range(m)]])
            else: mp = np.concatenate([pos,[lo-10-i for i in range(k)]]); mn=np.concatenate([neg,[hi+10+i for i in range(m)]])
            M = Scores(mp,mn,score_class=sc,equal_class=ec)
            # cm at thresholds inside
            for t in list(rng.uniform(lo-5,hi+5,5))+list(pos)+list(neg):
                tot["cm"]+=1
                if not np.array_equal(s.cm(t).matrix, M.cm(t).matrix): bad["cm"]+=1; ex.setdefault("cm",(pos,neg,k,m,sc,ec,t))
            tot["auc"]+=1
            if abs(s.auc()-M.auc())>1e-12: bad["auc"]+=1; ex.setdefault("auc",(pos.tolist(),neg.tolist(),k,m,sc,ec,s.auc(),M.auc()))
            l,u=sorted(rng.uniform(0,1,2)); tot["pauc"]+=1
            if abs(s.auc(l,u)-M.auc(l,u))>1e-12: bad["pauc"]+=1; ex.setdefault("pauc",(pos.tolist(),neg.tolist(),k,m,sc,ec,l,u,s.auc(l,u),M.auc(l,u)))
            for mt in mets:
                rel = {"tpr":pos,"fnr":pos,"tnr":neg,"fpr":neg}.get(mt, np.concatenate([pos,neg]))
                for r in rng.uniform(0,1,3):
                    tm = getattr(M,"threshold_at_"+mt)(r)
                    if rel.min()<=tm<=rel.max():
                        ts = getattr(s,"threshold_at_"+mt)(r); tot["thr_"+mt]+=1
                        if abs(ts-tm)>1e-9*max(1,abs(tm)):
                            bad["thr_"+mt]+=1; ex.setdefault("thr_"+mt,(pos.tolist(),neg.tolist(),k,m,sc,ec,r,ts,tm))
print(tot); print(bad)
for k_,v in ex.items(): print(k_,v)
