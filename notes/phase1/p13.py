import numpy as np, collections, warnings, scipy.stats as st
from score_analysis.utils import bootstrap_ci
rng = np.random.default_rng(13)
bad=collections.Counter(); ex={}
def ref(theta, th, alpha, method):
    th_=theta[~np.isnan(theta)]
    if method=="quantile": return np.quantile(th_,[alpha/2,1-alpha/2])
    p0=np.mean(th_<=th); z0=st.norm.ppf(p0)
    zl,zu=st.norm.ppf(alpha/2),st.norm.ppf(1-alpha/2)
    if method=="bc": a1,a2=st.norm.cdf(2*z0+zl),st.norm.cdf(2*z0+zu)
    else:
        num=np.sum((th_-th)**3); den=6*np.sum((th_-th)**2)**1.5
        a=num/den if den!=0 else 0.0
        if np.isfinite(z0):
            a1=st.norm.cdf(z0+(z0+zl)/(1-a*(z0+zl))); a2=st.norm.cdf(z0+(z0+zu)/(1-a*(z0+zu)))
        else: a1=a2=st.norm.cdf(z0)
    return np.quantile(th_,[a1,a2])
warnings.simplefilter("ignore")
for trial in range(4000):
    n=int(rng.integers(1,40)); kind=rng.integers(0,4)
    if kind==0: th=rng.normal(0,1,n)
    elif kind==1: th=rng.integers(0,3,n).astype(float)
    elif kind==2: th=np.full(n,2.5)
    else: th=rng.exponential(1,n)
    if rng.integers(0,3)==0 and n>2: th[rng.integers(0,n,2)]=np.nan
    if np.all(np.isnan(th)): continue
    hat=float(rng.choice([np.nanmedian(th), np.nanmin(th)-1, np.nanmax(th)+1, rng.normal()]))
    alpha=float(rng.choice([0.05,0.01,0.3,rng.uniform(0.001,0.999)]))
    for m in ("quantile","bc","bca"):
        ci=bootstrap_ci(th[:,None] if False else th, hat, alpha, method=m)
        r=ref(th,hat,alpha,m)
        ci=np.asarray(ci).reshape(-1)
        if not np.allclose(ci,r,rtol=1e-9,atol=1e-12,equal_nan=True): bad["formula_"+m]+=1; ex.setdefault("formula_"+m,(th,hat,alpha,ci,r))
        if not ci[0]<=ci[1]: bad["order_"+m]+=1; ex.setdefault("order_"+m,(th,hat,alpha,ci))
        if ci[0]<np.nanmin(th)-1e-12 or ci[1]>np.nanmax(th)+1e-12: bad["range_"+m]+=1
print(bad)
for k,v in ex.items(): print(k,v)
