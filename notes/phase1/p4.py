# C02/C03 failure table
import numpy as np, collections
from score_analysis import Scores
rng = np.random.default_rng(2)
metrics = ["tpr","fnr","tnr","fpr","topr","tonr"]
fail3 = collections.Counter(); tot3 = collections.Counter()
worst2 = collections.defaultdict(float)
ex2 = {}
for trial in range(6000):
    npos = int(rng.integers(1,9)); nneg = int(rng.integers(1,9))
    ties = rng.integers(0,2)
    if ties:
        pos = rng.integers(-4,5,npos).astype(float); neg = rng.integers(-4,5,nneg).astype(float)
    else:
        allv = rng.choice(np.arange(-40,40), size=npos+nneg, replace=False).astype(float)/4
        pos, neg = allv[:npos], allv[npos:]
    ep = int(rng.integers(0,4))*int(rng.integers(0,2)); en = int(rng.integers(0,4))*int(rng.integers(0,2))
    for sc in ("pos","neg"):
        for ec in ("pos","neg"):
            s = Scores(pos,neg,nb_easy_pos=ep,nb_easy_neg=en,score_class=sc,equal_class=ec)
            for m in metrics:
                f = getattr(s,m)
                vals = [f(-np.inf), f(np.inf)]
                lo, hi = min(vals), max(vals)
                Npop = {"tpr":npos+ep,"fnr":npos+ep,"tnr":nneg+en,"fpr":nneg+en,"topr":npos+nneg+ep+en,"tonr":npos+nneg+ep+en}[m]
                n1 = {"tpr":npos,"fnr":npos,"tnr":nneg,"fpr":nneg,"topr":npos+nneg,"tonr":npos+nneg}[m]==1
                for r, want in ((0.0,lo),(-0.3,lo),(1.0,hi),(1.7,hi)):
                    t = getattr(s,"threshold_at_"+m)(r)
                    key=(m, sc==ec if False else (sc,ec), "lo" if want==lo else "hi", "N1" if n1 else "N>1", "easy" if (ep or en) else "noeasy")
                    tot3[key]+=1
                    if f(t)!=want: fail3[key]+=1
                if not ties:
                    for r in rng.uniform(-0.1,1.1,size=4).tolist()+[k/ max(Npop,1) for k in range(0,Npop+1)][:6]:
                        t = getattr(s,"threshold_at_"+m)(r)
                        rc = min(max(r,lo),hi)
                        err = abs(f(t)-rc)*Npop
                        k2=(m,sc,ec)
                        if err>worst2[k2]+1e-9:
                            worst2[k2]=err; ex2[k2]=(pos.tolist(),neg.tolist(),ep,en,r,t,f(t))
print("C03 failures / total by key")
for k in sorted(tot3):
    if fail3[k]: print(k, fail3[k], tot3[k])
print("C02 worst error (in samples) untied")
for k in sorted(worst2): print(k, round(worst2[k],6), ex2[k] if worst2[k]>1+1e-9 else "")
