import numpy as np, collections
from fractions import Fraction as F
from score_analysis import Scores
rng = np.random.default_rng(5)
def step_area(s, lo, up, x_axis="fpr", y_axis="tpr"):
    # exact area under step ROC between x in [lo,up]: evaluate at all thresholds between scores
    allv = np.unique(np.concatenate([s.pos,s.neg]))
    ths = np.concatenate([[allv[0]-1], (allv[:-1]+allv[1:])/2, [allv[-1]+1]])
    x = np.array([F(getattr(s.cm(t),x_axis)()).limit_denominator(10**6) for t in ths]); y=np.array([F(getattr(s.cm(t),y_axis)()).limit_denominator(10**6) for t in ths])
    if x[-1]<x[0]: x=x[::-1]; y=y[::-1]
    # step function: no cross-class ties means between consecutive ths either x or y changes (not both) -> polyline axis-aligned; integrate y dx piecewise-linear
    area=F(0)
    for i in range(len(x)-1):
        a,b=x[i],x[i+1]
        if b==a: continue
        # segment horizontal? y equal
        l=max(a,lo); r=min(b,up)
        if r>l:
            # linear interp
            ya = y[i]+(y[i+1]-y[i])*(l-a)/(b-a); yb = y[i]+(y[i+1]-y[i])*(r-a)/(b-a)
            area+=(ya+yb)/2*(r-l)
    # flat extension outside [x0,xn]
    if lo<x[0]: area+= y[0]*(min(up,x[0])-lo)
    if up>x[-1]: area+= y[-1]*(up-max(lo,x[-1]))
    return area
bad=collections.Counter(); tot=0; ex={}
for trial in range(1500):
    npos = int(rng.integers(1,7)); nneg = int(rng.integers(1,7))
    # ties within class allowed, not across
    vals = rng.permutation(np.arange(-6,7))
    pv = vals[:4]; nv = vals[4:8]
    pos = rng.choice(pv,npos).astype(float); neg = rng.choice(nv,nneg).astype(float)
    ep = int(rng.integers(0,4))*int(rng.integers(0,2)); en = int(rng.integers(0,4))*int(rng.integers(0,2))
    lo,up = sorted([F(int(rng.integers(0,17)),16),F(int(rng.integers(0,17)),16)])
    for sc in ("pos","neg"):
        for ec in ("pos","neg"):
            s = Scores(pos,neg,nb_easy_pos=ep,nb_easy_neg=en,score_class=sc,equal_class=ec)
            for xa,ya in (("fpr","tpr"),("fpr","fnr"),("tnr","tpr"),("tpr","fpr")):
                a = s.auc(float(lo),float(up),x_axis=xa,y_axis=ya); w = step_area(s,lo,up,xa,ya); tot+=1
                if abs(a-float(w))>1e-9:
                    k=(xa,ya,sc,ec,"easy" if ep or en else "noeasy")
                    bad[k]+=1; ex.setdefault(k,(pos.tolist(),neg.tolist(),ep,en,float(lo),float(up),a,float(w)))
print(tot,len(bad)); 
for k in sorted(bad): print(k,bad[k],ex[k])
