# C06: tightly clustered positives vs widely spaced negatives -- does |FNR(t) - e| <= one sample still hold?
import numpy as np
from score_analysis import Scores
for width in (1e-3,1e-6,1e-9,1e-11,1e-12,1e-13):
    pos = 0.5 + np.arange(8)*width/8
    neg = np.array([0.0,1.0])
    for sc,ec in (("pos","pos"),("pos","neg")):
        s = Scores(pos,neg,score_class=sc,equal_class=ec)
        t,e = s.eer()
        fpr,fnr = s.fpr(t), s.fnr(t)
        print(f"width={width:g} {sc},{ec}: t={t!r} e={e:.12f} FPR={fpr} FNR={fnr}  |FNR-e|*P={abs(fnr-e)*8:.3f}  |FPR-e|*N={abs(fpr-e)*2:.3f}")
