import numpy as np, collections, warnings
from score_analysis.experimental import NormalDataset, BernoulliDataset, CorrelatedBernoullilDataset
from score_analysis.applications import FraudScores, doc_to_binary_label, binary_to_doc_label
from score_analysis import Scores
rng = np.random.default_rng(20)
bad=collections.Counter(); ex={}
for trial in range(3000):
    n=int(rng.integers(1,400)); p=float(rng.choice([0,1,rng.uniform(0,1), int(rng.integers(0,n+1))/n]))
    d=BernoulliDataset(p=p).sample(n,random=False,rng=np.random.default_rng(1))
    from fractions import Fraction as F
    want=int(np.floor(n*p))
    if d.sum()!=want or len(d)!=n: bad["bern"]+=1
    exact = (F(p)*n).__floor__()
    if exact!=want: bad["bern_exact_floor_diff"]+=1; ex.setdefault("bern_exact",(n,p,want,exact))
    p1,p2=rng.uniform(0,1,2); rho=rng.uniform(-1,1)
    if rng.integers(0,3)==0: p1=float(rng.choice([0,1,0.5])); 
    try:
        dd=CorrelatedBernoullilDataset(p1=p1,p2=p2,rho=rho).sample(n,random=False,rng=np.random.default_rng(1))
        if dd.shape!=(2,n) or not set(np.unique(dd))<= {0,1}: bad["cshape"]+=1
        if abs(dd[0].sum()-n*p1)>3 or abs(dd[1].sum()-n*p2)>3: bad["cmarg"]+=1; ex.setdefault("cmarg",(n,p1,p2,rho,dd[0].sum(),dd[1].sum()))
    except ValueError as e:
        c=(1-p1)*(1-p2); a=c+rho*np.sqrt(p1*p2*c); pp=np.array([a,1-p2-a,1-p1-a,p1+p2+a-1])
        if not np.any(pp<0): bad["cexc"]+=1
    except Exception as e:
        bad["cother"]+=1; ex.setdefault("cother",(n,p1,p2,rho,repr(e)))
for trial in range(2000):
    fnr,fpr=rng.uniform(0.001,0.999,2); fs,ps=int(rng.integers(1,50)),int(rng.integers(1,50))
    sp,sn = rng.uniform(0.2,5,2)
    ds=NormalDataset.from_metrics(fnr,fpr,fs,ps,sigma_pos=sp,sigma_neg=sn)
    if abs(ds.fnr(0.0)-fnr)>1e-9 or abs(ds.fpr(0.0)-fpr)>1e-9: bad["fm"]+=1; ex.setdefault("fm",(fnr,fpr,ds.fnr(0.0),ds.fpr(0.0)))
    if ds.n!=int(fs/fnr)+int(ps/fpr): bad["fmn"]+=1
    x=rng.uniform(0.001,0.999)
    if abs(ds.fnr(ds.threshold_at_fnr(x))-x)>1e-9 or abs(ds.fpr(ds.threshold_at_fpr(x))-x)>1e-9: bad["inv"]+=1
    s=ds.sample(50, rng=np.random.default_rng(3))
    if len(s.pos)+len(s.neg)!=50 or s.score_class!=ds.score_class: bad["sample"]+=1
    r=ds.roc(fnr=np.array([0.1,0.5]))
    if not np.allclose(r.fnr, ds.fnr(r.thresholds)) or not np.allclose(r.fpr, ds.fpr(r.thresholds)): bad["roc"]+=1
print("C20",bad,ex)
# C19
bad=collections.Counter(); ex={}
for trial in range(1500):
    g=rng.uniform(-0.2,1.2,int(rng.integers(0,6))); f=rng.uniform(-0.2,1.2,int(rng.integers(0,6)))
    if rng.integers(0,2): g=np.clip(g,0,1); f=np.clip(f,0,1)
    sc=str(rng.choice(["genuine","fraud"])); k,m=int(rng.integers(0,3)),int(rng.integers(0,3))
    inr = (len(g)==0 or (g.min()>=0 and g.max()<=1)) and (len(f)==0 or (f.min()>=0 and f.max()<=1))
    try:
        with warnings.catch_warnings():
            warnings.simplefilter("ignore")
            fs=FraudScores(genuines=g,frauds=f,nb_easy_genuines=k,nb_easy_frauds=m,score_class=sc)
        if not inr: bad["noraise"]+=1
    except ValueError:
        if inr: bad["raise"]+=1
        continue
    s=Scores(g,f,nb_easy_pos=k,nb_easy_neg=m,score_class="pos" if sc=="genuine" else "neg",equal_class="pos")
    if not (s==fs): bad["eq"]+=1
    for t in rng.uniform(0,1,3):
        if not np.array_equal(s.cm(t).matrix,fs.cm(t).matrix): bad["cm"]+=1
print("C19",bad)
